#!/usr/bin/env python3
"""Run checks against a seeded change without touching /repo: the patch is applied to a scratch git
worktree of /repo's HEAD, the checks are pointed at it (VF_REPO) and write evidence/replays to a scratch
directory (VF_OUT), and the worktree is removed afterwards.
usage: tools/run_seeded.py seeded/<id> [CHECK ...]     (default: the property named in meta.json)
Results are merged into seeded/<id>/result.json."""
import json, os, shutil, subprocess, sys, tempfile, time
sd = os.path.abspath(sys.argv[1])
meta = json.load(open(os.path.join(sd, "meta.json")))
checks = sys.argv[2:] or [meta["property"]]
patch = os.path.join(sd, "patch.diff")
tier = os.environ.get("VERIF_TIER", "quick")
wt = tempfile.mkdtemp(prefix="seedrun_", dir="/tmp")
os.rmdir(wt)
out = {}
try:
    subprocess.run(["git", "-C", "/repo", "worktree", "add", "--detach", wt, "HEAD"], check=True, capture_output=True)
    subprocess.run(["git", "-C", wt, "apply", patch], check=True)
    outdir = os.path.join(wt, "_vf_out")
    env = dict(os.environ, VF_REPO=wt, VF_OUT=outdir)
    for c in checks:
        t0 = time.time()
        p = subprocess.run(["timeout", "6000", "./check", c, "--tier", tier], cwd="/verif", capture_output=True, text=True, env=env)
        lines = [l for l in p.stdout.splitlines() if l.startswith("VIOLATION") or l.startswith("  key:") or l.startswith("OK ") or l.startswith("  ")]
        nviol = sum(1 for l in p.stdout.splitlines() if l.startswith("VIOLATION"))
        out[c + ":" + tier] = {"exit": p.returncode, "violations_printed": nviol, "wall_s": round(time.time() - t0, 1), "seed": os.environ.get("VERIF_SEED", "1"),
                               "first_lines": lines[:9], "stderr_tail": p.stderr[-300:]}
        print(c, tier, "exit", p.returncode, f"({nviol} violation lines)", "|", " / ".join(lines[:3])[:500])
finally:
    subprocess.run(["git", "-C", "/repo", "worktree", "remove", "--force", wt], capture_output=True)
    shutil.rmtree(wt, ignore_errors=True)
    subprocess.run(["git", "-C", "/repo", "worktree", "prune"], capture_output=True)
res_path = os.path.join(sd, "result.json")
prev = json.load(open(res_path)) if os.path.exists(res_path) else {}
prev.update(out)
json.dump(prev, open(res_path, "w"), indent=1)
