#!/usr/bin/env python3
"""Apply a seeded change to /repo, run the given checks (default: the property's own check), undo it.
usage: tools/run_seeded.py seeded/<id> [CHECK ...]     (never leaves /repo modified)"""
import json, os, subprocess, sys, time
sd = os.path.abspath(sys.argv[1])
meta = json.load(open(os.path.join(sd, "meta.json")))
checks = sys.argv[2:] or [meta["property"]]
patch = os.path.join(sd, "patch.diff")
st = subprocess.run(["git", "-C", "/repo", "status", "--porcelain", "--untracked-files=no"], capture_output=True, text=True).stdout.strip()
if st:
    sys.exit("refusing: /repo has local modifications: " + st)
subprocess.run(["git", "-C", "/repo", "apply", patch], check=True)
out = {}
try:
    for c in checks:
        t0 = time.time()
        p = subprocess.run(["timeout", "3000", "./check", c, "--tier", os.environ.get("VERIF_TIER", "quick")], cwd="/verif", capture_output=True, text=True)
        lines = [l for l in p.stdout.splitlines() if l.startswith("VIOLATION") or l.startswith("  key:") or l.startswith("OK ") or l.startswith("  ")]
        out[c] = {"exit": p.returncode, "wall_s": round(time.time() - t0, 1), "first_lines": lines[:9], "stderr_tail": p.stderr[-300:]}
        print(c, "exit", p.returncode, "|", " / ".join(lines[:3])[:400])
finally:
    subprocess.run(["git", "-C", "/repo", "checkout", "--", "."], check=True)
res_path = os.path.join(sd, "result.json")
prev = json.load(open(res_path)) if os.path.exists(res_path) else {}
prev.update(out)
json.dump(prev, open(res_path, "w"), indent=1)
