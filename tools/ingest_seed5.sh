#!/bin/bash
# tools/ingest_seed2.sh C06 : round 5 - copy /tmp/seed5_C06/_seed_out/{A,B} to seeded/C06-{C,D}; remove the worktree
P=$1
for pair in A:I B:J; do
  s=${pair%%:*}; t=${pair##*:}
  if [ -d /tmp/seed5_$P/_seed_out/$s ]; then mkdir -p /verif/seeded/$P-$t; cp -r /tmp/seed5_$P/_seed_out/$s/* /verif/seeded/$P-$t/; echo "ingested $P-$t: $(ls /verif/seeded/$P-$t | tr '\n' ' ')"; fi
done
git -C /repo worktree remove --force /tmp/seed5_$P; rm -rf /tmp/seed5_$P; git -C /repo worktree prune
