#!/usr/bin/env python3
"""tools/mkmeta.py <id> <round> <summary> <needs> <files,comma> <demo> [demo_cmd]  - writes seeded/<id>/meta.json"""
import json, sys
id_, rnd, summary, needs, files, demo = sys.argv[1:7]
m = {"id": id_, "property": id_[:3], "source": f"independent sub-agent, round {rnd} (given the property text, a scratch worktree and the one-line summaries of all earlier changes for the property)",
     "summary": summary, "needs": needs, "files": files.split(","), "demo": demo}
if len(sys.argv) > 7 and sys.argv[7]:
    m["demo_cmd"] = sys.argv[7]
json.dump(m, open(f"/verif/seeded/{id_}/meta.json", "w"), indent=1)
