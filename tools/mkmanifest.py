#!/usr/bin/env python3
"""Regenerates MANIFEST.json from the table below (keeps it valid and consistent)."""
import json, os, sys
HERE = os.path.dirname(os.path.dirname(os.path.abspath(__file__)))
props = [json.loads(l) for l in open(os.path.join(HERE, "properties.jsonl"))]
sys.path.insert(0, HERE)
from vf.registry import CHECKS  # noqa

checks, na = [], []
for p in props:
    pid = p["id"]
    c = CHECKS.get(pid)
    if not c or c.get("na"):
        na.append({"property_id": pid, "reason": (c or {}).get("na", "check not implemented yet (build in progress); see DESIGN.md section 4")})
        continue
    checks.append({
        "property_id": pid,
        "quick_cmd": f"./check {pid} --tier quick",
        "thorough_cmd": f"./check {pid} --tier thorough",
        "evidence_file": f"/verif/evidence/{pid}.json",
        "replay_cmd_template": f"./check {pid} --replay {{path}}",
        "engine": c["engine"],
        "level_claimed": {"category": "exploration", "text": c["text"], "design_ref": f"DESIGN.md section 4 / {pid}"},
        "level_note": c["note"],
        "technique": c["technique"],
    })
m = {
    "version": 1,
    "setup_cmd": "./check selftest",
    "hooks": {"guard": "AU_VERIF_HOOKS",
              "enable": "no source hooks are needed: Au is header-only and every anchored function is callable from outside; checks compile generated harnesses against /repo/au/code with compiler sanitizers (trap mode + signal handler, or recover mode + __ubsan_on_report)",
              "baseline_off_cmd": "cmake --build /repo/_build && ctest --test-dir /repo/_build -j8 --timeout 900",
              "source_commits": [], "add_only": True},
    "engines": [
        {"name": "planeA", "path": "/verif/harness", "kind_free_text": "value executions of the real headers on laundered inputs under UBSan/ASan/clang integer sanitizers (trap attribution), judged by independent __int128 / long double / Fraction oracles",
         "serves_properties": sorted(k for k, v in CHECKS.items() if "planeA" in v.get("engine", ""))},
        {"name": "planeB", "path": "/verif/harness/vf_reify.hh", "kind_free_text": "compile-time results (dimension, magnitude, type identity, labels) reified into run-time JSONL traces and judged by an exact Python model",
         "serves_properties": sorted(k for k, v in CHECKS.items() if "planeB" in v.get("engine", ""))},
        {"name": "planeC", "path": "/verif/vf/ccmon.py", "kind_free_text": "compile-outcome monitoring: batched one-line probes, diagnostics attributed to probe lines, isolation re-check",
         "serves_properties": sorted(k for k, v in CHECKS.items() if "planeC" in v.get("engine", ""))},
    ],
    "checks": checks,
    "not_applicable": na,
    "notes": "All randomness derives from VERIF_SEED. Exit 0 held / 1 violation / 2 inconclusive. known_findings.json lists recorded and fixed defects.",
}
json.dump(m, open(os.path.join(HERE, "MANIFEST.json"), "w"), indent=1)
print(f"{len(checks)} checks, {len(na)} not claimed")
