#!/usr/bin/env python3
"""Self-validation: apply hand-written mutants (mutants/*.json: file, old, new, checks) to scratch worktrees of /repo
and run the named checks against them (VF_REPO), several mutants in parallel.  Not the seeded changes (those are
written independently by sub-agents, see seeded/); these are the 'designed to catch' breaks of DESIGN.md section 4.
usage: tools/run_mutants.py [-j N] [--tier quick] [name-substring ...]     results -> mutants/RESULTS.json"""
import concurrent.futures as cf, glob, json, os, shutil, subprocess, sys, tempfile, time
args = sys.argv[1:]
J = 3
if "-j" in args:
    i = args.index("-j"); J = int(args[i + 1]); del args[i:i + 2]
tier = "quick"
if "--tier" in args:
    i = args.index("--tier"); tier = args[i + 1]; del args[i:i + 2]
specs = []
for f in sorted(glob.glob("/verif/mutants/*.json")):
    if f.endswith("RESULTS.json"):
        continue
    for m in json.load(open(f)):
        if not args or any(a in m["name"] for a in args):
            specs.append(m)

def one(m):
    wt = tempfile.mkdtemp(prefix="mut_", dir="/tmp"); os.rmdir(wt)
    res = {"name": m["name"], "checks": {}}
    try:
        subprocess.run(["git", "-C", "/repo", "worktree", "add", "--detach", wt, "HEAD"], check=True, capture_output=True)
        p = os.path.join(wt, m["file"]); s = open(p).read()
        if s.count(m["old"]) != 1:
            res["error"] = f"old text occurs {s.count(m['old'])} times"; return res
        open(p, "w").write(s.replace(m["old"], m["new"]))
        env = dict(os.environ, VF_REPO=wt, VF_OUT=os.path.join(wt, "_vf_out"), VF_JOBS=str(max(4, 16 // J)))
        for c in m["checks"]:
            t0 = time.time()
            r = subprocess.run(["timeout", "3000", "./check", c, "--tier", tier], cwd="/verif", capture_output=True, text=True, env=env)
            keys = [l.strip()[5:] for l in r.stdout.splitlines() if l.startswith("  key:")]
            res["checks"][c] = {"exit": r.returncode, "wall_s": round(time.time() - t0, 1), "keys": keys[:3], "err": r.stderr[-200:] if r.returncode == 2 else ""}
    finally:
        subprocess.run(["git", "-C", "/repo", "worktree", "remove", "--force", wt], capture_output=True)
        shutil.rmtree(wt, ignore_errors=True)
    return res

out_path = "/verif/mutants/RESULTS.json"
allres = json.load(open(out_path)) if os.path.exists(out_path) else {}
with cf.ThreadPoolExecutor(J) as ex:
    for r in ex.map(one, specs):
        allres[r["name"]] = r
        st = " ".join(f"{c}:{'CAUGHT' if v['exit'] == 1 else 'MISSED' if v['exit'] == 0 else 'INCONCL'}({v['wall_s']}s)" for c, v in r["checks"].items())
        print(f"{r['name']:40s} {st} {r.get('error', '')}", flush=True)
        for c, v in r["checks"].items():
            if v["keys"]:
                print("      ", v["keys"][0][:200])
            if v["err"]:
                print("      ", v["err"].strip()[-200:])
subprocess.run(["git", "-C", "/repo", "worktree", "prune"], capture_output=True)
json.dump(allres, open(out_path, "w"), indent=1)
