#!/bin/bash
# tools/ingest_seed.sh C06 : copy a sub-agent's deliverables from /tmp/seed_C06/_seed_out/{A,B} to seeded/C06-{A,B}; remove its worktree
P=$1
for v in A B C; do
  if [ -d /tmp/seed_$P/_seed_out/$v ]; then mkdir -p /verif/seeded/$P-$v; cp -r /tmp/seed_$P/_seed_out/$v/* /verif/seeded/$P-$v/; echo "ingested $P-$v: $(ls /verif/seeded/$P-$v | tr '\n' ' ')"; fi
done
git -C /repo worktree remove --force /tmp/seed_$P; rm -rf /tmp/seed_$P; git -C /repo worktree prune
