#!/usr/bin/env python3
"""Regenerates seeded/README.md from seeded/*/meta.json, result.json and confirm.log."""
import glob, json, os
rows = []
for d in sorted(glob.glob("/verif/seeded/C*")):
    m = json.load(open(os.path.join(d, "meta.json")))
    res = json.load(open(os.path.join(d, "result.json"))) if os.path.exists(os.path.join(d, "result.json")) else {}
    conf = open(os.path.join(d, "confirm.log"), errors="replace").read() if os.path.exists(os.path.join(d, "confirm.log")) else ""
    confirmed = "yes" if "CONFIRMED" in conf else ("NO" if conf else "pending")
    own = m.get("decided_by", m["property"])
    caught = []
    for k, v in sorted(res.items()):
        caught.append(f"{k.split(':')[0]} {k.split(':')[1] if ':' in k else ''}: " + ("**reported**" if v["exit"] == 1 else "silent" if v["exit"] == 0 else "inconclusive"))
    first = ""
    for k, v in res.items():
        if v["exit"] == 1 and k.startswith(own):
            first = next((l.strip()[5:] for l in v["first_lines"] if l.strip().startswith("key:")), "")
    rows.append((m["id"], m["property"], m["summary"], m["needs"], confirmed, "; ".join(caught), first, m.get("note", "")))
L = ["# Seeded changes", "",
     "Each directory holds one change to aurora-opensource/au written by a sub-agent that was given only the text of one property and a scratch git worktree "
     "(nothing from /verif), plus — from the second round on — the one-line summaries of the earlier changes for that property so as to produce something different. "
     "Suffixes: A/B round 1, C/D round 2, E/F round 3, G/H round 4, I/J round 5.",
     "`patch.diff` is the change, `demo*.cc`/`.sh` the author's demonstration (passes on the unmodified tree, fails with the change), `NOTES.md` the author's notes, "
     "`meta.json` what it breaks and what it needs in order to manifest, `confirm.log` my own confirmation (tools/confirm_seeded.sh: scratch worktree, demo passes clean / fails patched, "
     "the whole existing suite builds and passes with the patch), `result.json` what the checks said (tools/run_seeded.py: patch applied to a scratch worktree, checks pointed at it with VF_REPO).",
     "None of these changes is ever applied to /repo.", "",
     "| id | property | change | needs, to manifest | confirmed | check verdicts (quick tier, VERIF_SEED=1) | first violation key |", "|---|---|---|---|---|---|---|"]
for r in rows:
    L.append("| " + " | ".join(str(x).replace("|", "\\|").replace("\n", " ") for x in (r[0], r[1], r[2] + (" *(" + r[7] + ")*" if r[7] else ""), r[3], r[4], r[5], "`" + r[6][:160] + "`" if r[6] else "")) + " |")
n = len(rows)
rep = sum(1 for r in rows if "**reported**" in r[5])
L += ["", f"{n} changes, {rep} reported by the check of the property they break (or the sibling check named in the note).", "",
      "History (which changes were silent when first run, and what was added because of them) is in DESIGN.md section 9.5: 15 of 40 in round 1, 13 of 40 in round 2, 12 of 40 in round 3; "
      "the verdicts in this table are those of the checks as they are now."]
open("/verif/seeded/README.md", "w").write("\n".join(L) + "\n")
print(f"{n} rows, {rep} reported")
