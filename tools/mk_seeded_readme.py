#!/usr/bin/env python3
"""Regenerates seeded/README.md from seeded/*/meta.json, result.json and confirm.log."""
import glob, json, os
rows = []
for d in sorted(glob.glob("/verif/seeded/C*")):
    m = json.load(open(os.path.join(d, "meta.json")))
    res = json.load(open(os.path.join(d, "result.json"))) if os.path.exists(os.path.join(d, "result.json")) else {}
    conf = open(os.path.join(d, "confirm.log")).read() if os.path.exists(os.path.join(d, "confirm.log")) else ""
    confirmed = "yes" if "CONFIRMED" in conf else ("NO" if conf else "pending")
    own = m.get("decided_by", m["property"])
    caught = []
    for k, v in sorted(res.items()):
        caught.append(f"{k.split(':')[0]} {k.split(':')[1] if ':' in k else ''}: " + ("**reported**" if v["exit"] == 1 else "silent" if v["exit"] == 0 else "inconclusive"))
    first = ""
    for k, v in res.items():
        if v["exit"] == 1 and k.startswith(own):
            first = next((l.strip()[5:] for l in v["first_lines"] if l.strip().startswith("key:")), "")
    rows.append((m["id"], m["property"], m["summary"], m["needs"], confirmed, "; ".join(caught), first, m.get("note", "")))
L = ["# Seeded changes", "",
     "Each directory holds one change to aurora-opensource/au written by a sub-agent that was given only the text of one property and a scratch git worktree "
     "(nothing from /verif), plus — in the second round — the one-line summaries of the earlier changes for that property so as to produce something different.",
     "`patch.diff` is the change, `demo*.cc`/`.sh` the author's demonstration (passes on the unmodified tree, fails with the change), `NOTES.md` the author's notes, "
     "`meta.json` what it breaks and what it needs in order to manifest, `confirm.log` my own confirmation (tools/confirm_seeded.sh: scratch worktree, demo passes clean / fails patched, "
     "the whole existing suite builds and passes with the patch), `result.json` what the checks said (tools/run_seeded.py: patch applied to a scratch worktree, checks pointed at it with VF_REPO).",
     "None of these changes is ever applied to /repo.", "",
     "| id | property | change | needs, to manifest | confirmed | check verdicts (quick tier, VERIF_SEED=1) | first violation key |", "|---|---|---|---|---|---|---|"]
for r in rows:
    L.append("| " + " | ".join(str(x).replace("|", "\\|").replace("\n", " ") for x in (r[0], r[1], r[2] + (" *(" + r[7] + ")*" if r[7] else ""), r[3], r[4], r[5], "`" + r[6][:160] + "`" if r[6] else "")) + " |")
n = len(rows)
rep = sum(1 for r in rows if "**reported**" in r[5])
L += ["", f"{n} changes, {rep} reported by the check of the property they break (or the sibling check named in the note).", "",
      "History: after the first run of round 1, 25 of 40 were reported; the 15 misses (C02-A, C07-A, C07-B, C08-B, C09-A, C09-B, C10-B, C11-B, C13-B, C15-A, C15-B, C18-B, C19-B, C20-A, C20-B) and the 6 of round 2 "
      "(C01-C, C01-D, C02-D, C06-C, C08-C, C09-D) led to the strengthening recorded in DESIGN.md section 9.5; C03-C and C08-D are reported by the sibling checks C05 and C17 (see notes)."]
open("/verif/seeded/README.md", "w").write("\n".join(L) + "\n")
print(f"{n} rows, {rep} reported")
