#!/bin/bash
# Confirm a candidate seeded change independently, in a scratch worktree (never in /repo):
#   tools/confirm_seeded.sh <dir with patch.diff + demo*.cc/.sh> [jobs]
# Steps: (1) demo passes on clean HEAD of /repo, (2) patch applies, (3) demo fails with the patch,
# (4) the whole existing suite builds and passes with the patch.  Writes <dir>/confirm.log and removes the worktree.
set -u
D=$(readlink -f "$1"); J=${2:-8}
W=$(mktemp -d /tmp/confirm_XXXXXX); rmdir "$W"
LOG="$D/confirm.log"; : > "$LOG"
say() { echo "$@" | tee -a "$LOG"; }
cleanup() { git -C /repo worktree remove --force "$W" >/dev/null 2>&1; rm -rf "$W"; git -C /repo worktree prune; }
trap cleanup EXIT
git -C /repo worktree add --detach "$W" HEAD >/dev/null 2>&1 || { say "worktree failed"; exit 2; }
run_demo() {  # exit status of the demonstration against worktree $W
  local rc=0
  local dc=""
  [ -f "$D/meta.json" ] && dc=$(python3 -c "import json,sys; print(json.load(open(sys.argv[1])).get('demo_cmd',''))" "$D/meta.json")
  if [ -n "$dc" ]; then ( cd "$D" && bash -c "${dc//\{WT\}/$W}" ) >>"$LOG" 2>&1; return $?; fi
  for sh in "$D"/demo*.sh; do
    [ -e "$sh" ] || continue
    ( cd "$D" && AU_ROOT="$W" WT="$W" bash "$sh" "$W" ) >>"$LOG" 2>&1 || rc=1
  done
  if ! ls "$D"/demo*.sh >/dev/null 2>&1; then
    for cc in "$D"/demo*.cc; do
      [ -e "$cc" ] || continue
      local std=c++14 cxx=g++
      grep -q "VF_DEMO_STD=" "$cc" && std=$(grep -o "VF_DEMO_STD=[a-z+0-9]*" "$cc" | head -1 | cut -d= -f2)
      grep -q "VF_DEMO_CXX=" "$cc" && cxx=$(grep -o "VF_DEMO_CXX=[a-z+0-9]*" "$cc" | head -1 | cut -d= -f2)
      if $cxx -std=$std -w -I "$W/au/code" "$cc" -o "$W/_demo.exe" >>"$LOG" 2>&1; then
        timeout 300 "$W/_demo.exe" >>"$LOG" 2>&1 || rc=1
      else rc=1; fi
    done
  fi
  return $rc
}
say "== demo on clean HEAD ($(git -C /repo rev-parse --short HEAD))"
if run_demo; then say "clean: demo PASSES (as required)"; else say "clean: demo FAILS -> invalid"; exit 1; fi
git -C "$W" apply --check "$D/patch.diff" 2>>"$LOG" || { say "patch does not apply"; exit 1; }
git -C "$W" apply "$D/patch.diff"
say "== demo with patch"
if run_demo; then say "patched: demo PASSES -> change not demonstrated"; exit 1; else say "patched: demo FAILS (as required)"; fi
say "== full suite with patch (-j$J)"
cmake -G Ninja -S "$W" -B "$W/_build" -DCMAKE_BUILD_TYPE=RelWithDebInfo -DCMAKE_CXX_COMPILER=/usr/bin/c++ -DCMAKE_CXX_FLAGS=-Wno-error \
  -DFETCHCONTENT_SOURCE_DIR_GOOGLETEST=/usr/src/googletest -DFETCHCONTENT_FULLY_DISCONNECTED=ON >>"$LOG" 2>&1 || { say "configure failed"; exit 1; }
if ! cmake --build "$W/_build" -j"$J" >"$W/build.log" 2>&1; then tail -40 "$W/build.log" >>"$LOG"; say "BUILD FAILED with patch -> invalid"; exit 1; fi
ctest --test-dir "$W/_build" -j"$J" --timeout 900 >"$W/ctest.log" 2>&1; rc=$?
tail -5 "$W/ctest.log" | tee -a "$LOG"
if [ $rc -ne 0 ]; then grep -E "Failed|\*\*\*" "$W/ctest.log" | head -20 >>"$LOG"; say "TESTS FAILED with patch -> invalid"; exit 1; fi
say "CONFIRMED: demo passes clean, fails patched; existing suite builds and passes with the patch"
exit 0
