// Plane A harness for C13 (transparent wrapper) and C19 (ZERO): Quantity operators vs raw operators.
#ifndef VF_WRAPPER_HH
#define VF_WRAPPER_HH

#include <algorithm>
#include <cmath>
#include <cstring>
#include <typeinfo>
#include <vector>

#include "au/au.hh"
#include "vf_monitor.hh"

namespace vfw {
using u64 = uint64_t;
using i128 = __int128;
typedef long double ld;

template <typename R>
struct Bits {  // value bits only (long double has 6 padding bytes)
    static constexpr size_t n = std::is_same<R, long double>::value ? 10 : sizeof(R);
    static bool same(const R &a, const R &b) { return memcmp(&a, &b, n) == 0; }
};
template <typename R>
bool same_value(R a, R b) { return Bits<R>::same(a, b) || (a != a && b != b); }  // both-NaN counts as equal
inline bool same_value(bool a, bool b) { return a == b; }

template <typename R>
void fmt(char *b, R v, std::true_type) { snprintf(b, 40, "%La", (ld)v); }
template <typename R>
void fmt(char *b, R v, std::false_type) {
    i128 x = (i128)v; bool neg = x < 0; unsigned __int128 u = neg ? (unsigned __int128)(-(x + 1)) + 1 : (unsigned __int128)x;
    char t[48]; int n = 0; if (!u) t[n++] = '0';
    while (u) { t[n++] = (char)('0' + (int)(u % 10)); u /= 10; }
    int k = 0; if (neg) b[k++] = '-'; while (n) b[k++] = t[--n]; b[k] = 0;
}

struct Stats {
    u64 evals, skipped_raw_ub, mm;
    struct W { const char *op; char a[40], b[40], got[40], want[40]; } wit[16];
    int nwit;
    void clear() { memset(this, 0, sizeof(*this)); }
};
static Stats g_st;

template <typename R, typename G>
void mismatch(const char *op, R a, R b, G got, G want) {
    g_st.mm++;
    if (g_st.nwit < 16) {
        auto &w = g_st.wit[g_st.nwit++];
        w.op = op;
        fmt(w.a, a, std::is_floating_point<R>{}); fmt(w.b, b, std::is_floating_point<R>{});
        fmt(w.got, got, std::is_floating_point<G>{}); fmt(w.want, want, std::is_floating_point<G>{});
    }
}

// ---- operand streams ----------------------------------------------------------------------------
template <typename R>
VF_NOSAN std::vector<R> int_operands(u64 nrandom, u64 seed) {
    std::vector<R> v;
    const i128 lo = std::numeric_limits<R>::lowest(), hi = std::numeric_limits<R>::max();
    if (sizeof(R) == 1) { for (i128 x = lo; x <= hi; ++x) v.push_back((R)x); return v; }
    const i128 c[] = {0, 1, -1, 2, -2, 3, 7, 10, 100, lo, lo + 1, lo + 2, hi, hi - 1, hi - 2, hi / 2, hi / 2 + 1, lo / 2, 2147, 46340, 46341, 65535, 65536, 3037000499LL, 3037000500LL};
    for (i128 x : c) if (x >= lo && x <= hi) v.push_back((R)x);
    vf::Rng r(seed);
    for (u64 i = 0; i < nrandom; ++i) {
        i128 y = (i128)r.next_loguniform();
        if (lo < 0 && (r.next() & 1)) y = -y;
        if (y < lo || y > hi) continue;
        v.push_back((R)y);
    }
    return v;
}
template <typename R>
std::vector<R> float_operands(u64 nrandom, u64 seed) {
    std::vector<R> v;
    const R inf = std::numeric_limits<R>::infinity();
    const R c[] = {R(0), -R(0), R(1), R(-1), R(0.5), R(1.5), R(2), R(3), R(10), R(0.1), std::numeric_limits<R>::min(), std::numeric_limits<R>::denorm_min(),
                   std::numeric_limits<R>::max(), -std::numeric_limits<R>::max(), inf, -inf, std::numeric_limits<R>::quiet_NaN(), -std::numeric_limits<R>::quiet_NaN(),
                   std::numeric_limits<R>::epsilon(), R(65), R(1e10), R(-1e-10)};
    for (R x : c) v.push_back(x);
    v.push_back(std::numeric_limits<R>::signaling_NaN());
    vf::Rng r(seed);
    for (u64 i = 0; i < nrandom; ++i) {
        R m = (R)((ld)(r.next() >> 11) / (ld)(1ull << 53)) + R(0.5);
        int e = (int)(r.next() % 200) - 100;
        R y = std::ldexp(m, e);
        if (r.next() & 1) y = -y;
        v.push_back(y);
    }
    return v;
}
template <typename R>
std::vector<R> operands(u64 nrandom, u64 seed, std::true_type) { return float_operands<R>(nrandom, seed); }
template <typename R>
std::vector<R> operands(u64 nrandom, u64 seed, std::false_type) { return int_operands<R>(nrandom, seed); }

// raw-operator UB oracle (signed overflow in the *promoted* type, division by zero, min / -1)
template <typename R, bool F = std::is_floating_point<R>::value>
struct RawUB {
    using P = decltype(std::declval<R>() + std::declval<R>());
    static bool fits(i128 v) { return v >= (i128)std::numeric_limits<P>::lowest() && v <= (i128)std::numeric_limits<P>::max(); }
    static constexpr bool psigned = std::is_signed<P>::value;
    static bool add(R a, R b) { return psigned && !fits((i128)a + (i128)b); }
    static bool sub(R a, R b) { return psigned && !fits((i128)a - (i128)b); }
    static bool mul(R a, R b) { return psigned && !fits((i128)a * (i128)b); }
    static bool div(R a, R b) { return b == 0 || (psigned && (i128)a == (i128)std::numeric_limits<P>::lowest() && (i128)b == -1); }
    static bool neg(R a) { return psigned && !fits(-(i128)a); }
};
template <typename R>
struct RawUB<R, true> {
    static bool add(R, R) { return false; }
    static bool sub(R, R) { return false; }
    static bool mul(R, R) { return false; }
    static bool div(R, R) { return false; }
    static bool neg(R) { return false; }
};

#define VF_CMP(opname, expr_q, expr_r)                                                     \
    do {                                                                                   \
        auto want_ = (expr_r);                                                             \
        decltype(want_) got_{};                                                            \
        VF_PHASE(vf::PH_OPERATION) { got_ = (expr_q); }                                    \
        g_st.evals++;                                                                      \
        if (!same_value(got_, want_)) mismatch(opname, a, b, got_, want_);                 \
    } while (0)

// modulo only exists for integral reps
template <typename U, typename R, bool I = std::is_integral<R>::value>
struct ModOp {
    static void run(R a, R b) {
        if (RawUB<R>::div(a, b)) { g_st.skipped_raw_ub++; return; }
        auto qa = au::make_quantity<U>(a), qb = au::make_quantity<U>(b);
        VF_CMP("%", (qa % qb).in(U{}), a % b);
    }
    static const char *type_name() {
        using QR = typename decltype(std::declval<au::Quantity<U, R>>() % std::declval<au::Quantity<U, R>>())::Rep;
        return std::is_same<QR, decltype(std::declval<R>() % std::declval<R>())>::value ? "same" : typeid(QR).name();
    }
};
template <typename U, typename R>
struct ModOp<U, R, false> {
    static void run(R, R) {}
    static const char *type_name() { return "same"; }
};

template <typename U, typename R>
void result_types() {
    using Q = au::Quantity<U, R>;
    struct T {
        const char *op; bool same; const char *got; const char *want;
    };
#define VF_TY(op, qexpr, rexpr) T{op, std::is_same<qexpr, rexpr>::value, typeid(qexpr).name(), typeid(rexpr).name()}
    const T ts[] = {
        VF_TY("+", typename decltype(std::declval<Q>() + std::declval<Q>())::Rep, decltype(std::declval<R>() + std::declval<R>())),
        VF_TY("-", typename decltype(std::declval<Q>() - std::declval<Q>())::Rep, decltype(std::declval<R>() - std::declval<R>())),
        VF_TY("unary+", typename decltype(+std::declval<Q>())::Rep, decltype(+std::declval<R>())),
        VF_TY("unary-", typename decltype(-std::declval<Q>())::Rep, decltype(-std::declval<R>())),
        VF_TY("q*s", typename decltype(std::declval<Q>() * std::declval<R>())::Rep, decltype(std::declval<R>() * std::declval<R>())),
        VF_TY("s*q", typename decltype(std::declval<R>() * std::declval<Q>())::Rep, decltype(std::declval<R>() * std::declval<R>())),
        VF_TY("q/s", typename decltype(std::declval<Q>() / std::declval<R>())::Rep, decltype(std::declval<R>() / std::declval<R>())),
        VF_TY("==", decltype(std::declval<Q>() == std::declval<Q>()), bool),
        VF_TY("<", decltype(std::declval<Q>() < std::declval<Q>()), bool),
        VF_TY("+=", decltype(std::declval<Q &>() += std::declval<Q>()), Q &),
        VF_TY("-=", decltype(std::declval<Q &>() -= std::declval<Q>()), Q &),
        VF_TY("*=", decltype(std::declval<Q &>() *= std::declval<R>()), Q &),
        VF_TY("/=", decltype(std::declval<Q &>() /= std::declval<R>()), Q &),
    };
#undef VF_TY
    for (const T &t : ts)
        printf("{\"ev\":\"rtype\",\"rep\":\"%s\",\"unit\":\"%s\",\"op\":\"%s\",\"same\":%d,\"got\":\"%s\",\"want\":\"%s\"}\n", typeid(R).name(), typeid(U).name(), t.op, (int)t.same, t.got, t.want);
    const char *m = ModOp<U, R>::type_name();
    printf("{\"ev\":\"rtype\",\"rep\":\"%s\",\"unit\":\"%s\",\"op\":\"%%\",\"same\":%d,\"got\":\"%s\",\"want\":\"\"}\n", typeid(R).name(), typeid(U).name(), (int)!strcmp(m, "same"), m);
}

template <typename U, typename R>
__attribute__((noinline)) void run_ops(long id, const char *rname, const char *uname, u64 nrandom, u64 seed) {
    g_st.clear();
    vf::g_inst = id;
    static std::vector<R> vals;
    vals = operands<R>(nrandom, seed, std::is_floating_point<R>{});
    const size_t n = vals.size();
    // all pairs for 8-bit reps; otherwise every value against a rotating window of partners
    const u64 partners = sizeof(R) == 1 ? n : 24;
    static const R *pv;
    pv = vals.data();
    vf::run_loop(0, n * partners, [&](u64 idx) {
        const R a = pv[idx / partners];
        const R b = pv[sizeof(R) == 1 ? (idx % partners) : ((idx / partners) * 7 + (idx % partners) * 31 + 1) % n];
        { u64 x = 0, y = 0; memcpy(&x, &a, sizeof(R) < 8 ? sizeof(R) : 8); memcpy(&y, &b, sizeof(R) < 8 ? sizeof(R) : 8); vf::g_aux0 = x; vf::g_aux1 = y; }
        const R la = vf::launder(a), lb = vf::launder(b);
        auto qa = au::make_quantity<U>(la), qb = au::make_quantity<U>(lb);
        // round trip
        { R back{}; VF_PHASE(vf::PH_OPERATION) { back = qa.in(U{}); } g_st.evals++; if (!Bits<R>::same(back, la)) mismatch("roundtrip", a, b, back, la); }
        // the other spellings of "same unit, same rep": explicit-rep in<R>(unit), coerce_in(unit), data_in(unit)
        { R b1{}, b2{}, b3{}; VF_PHASE(vf::PH_OPERATION) { b1 = qa.template in<R>(U{}); b2 = qa.coerce_in(U{}); b3 = qa.data_in(U{}); } g_st.evals += 3;
          if (!Bits<R>::same(b1, la)) mismatch("roundtrip in<R>(unit)", a, b, b1, la);
          if (!Bits<R>::same(b2, la)) mismatch("roundtrip coerce_in(unit)", a, b, b2, la);
          if (!Bits<R>::same(b3, la)) mismatch("roundtrip data_in(unit)", a, b, b3, la); }
        if (!RawUB<R>::add(a, b)) VF_CMP("+", (qa + qb).in(U{}), la + lb); else g_st.skipped_raw_ub++;
        if (!RawUB<R>::sub(a, b)) VF_CMP("-", (qa - qb).in(U{}), la - lb); else g_st.skipped_raw_ub++;
        VF_CMP("unary+", (+qa).in(U{}), +la);
        if (!RawUB<R>::neg(a)) VF_CMP("unary-", (-qa).in(U{}), -la); else g_st.skipped_raw_ub++;
        if (!RawUB<R>::mul(a, b)) { VF_CMP("q*s", (qa * lb).in(U{}), la * lb); VF_CMP("s*q", (la * qb).in(U{}), la * lb); } else g_st.skipped_raw_ub++;
        if (!RawUB<R>::div(a, b)) VF_CMP("q/s", (qa / lb).in(U{}), la / lb); else g_st.skipped_raw_ub++;
        ModOp<U, R>::run(la, lb);
        VF_CMP("==", qa == qb, la == lb); VF_CMP("!=", qa != qb, la != lb); VF_CMP("<", qa < qb, la < lb);
        VF_CMP("<=", qa <= qb, la <= lb); VF_CMP(">", qa > qb, la > lb); VF_CMP(">=", qa >= qb, la >= lb);
        // QuantityPoint of the same unit and rep: the six comparisons are the raw comparisons of the stored values
        // (the affine operators narrow back into the rep by design and are judged by C09, not here)
        {
            auto pa = au::make_quantity_point<U>(la), pb = au::make_quantity_point<U>(lb);
            VF_CMP("pt==", pa == pb, la == lb); VF_CMP("pt!=", pa != pb, la != lb); VF_CMP("pt<", pa < pb, la < lb);
            VF_CMP("pt<=", pa <= pb, la <= lb); VF_CMP("pt>", pa > pb, la > lb); VF_CMP("pt>=", pa >= pb, la >= lb);
        }
        // compound assignment (the raw compound operators convert back to R exactly like the wrapper must)
        if (!RawUB<R>::add(a, b)) { auto q = qa; R r = la; r += lb; VF_CMP("+=", (q += qb, q.in(U{})), r); }
        if (!RawUB<R>::sub(a, b)) { auto q = qa; R r = la; r -= lb; VF_CMP("-=", (q -= qb, q.in(U{})), r); }
        if (!RawUB<R>::mul(a, b)) { auto q = qa; R r = la; r *= lb; VF_CMP("*=", (q *= lb, q.in(U{})), r); }
        if (!RawUB<R>::div(a, b)) { auto q = qa; R r = la; r /= lb; VF_CMP("/=", (q /= lb, q.in(U{})), r); }
    });
    printf("{\"ev\":\"ops\",\"id\":%ld,\"rep\":\"%s\",\"unit\":\"%s\",\"evals\":%llu,\"pairs\":%llu,\"skipped_raw_ub\":%llu,\"mm\":%llu,\"wit\":[", id, rname, uname,
           (unsigned long long)g_st.evals, (unsigned long long)(n * partners), (unsigned long long)g_st.skipped_raw_ub, (unsigned long long)g_st.mm);
    for (int i = 0; i < g_st.nwit; ++i)
        printf("%s{\"op\":\"%s\",\"a\":\"%s\",\"b\":\"%s\",\"got\":\"%s\",\"want\":\"%s\"}", i ? "," : "", g_st.wit[i].op, g_st.wit[i].a, g_st.wit[i].b, g_st.wit[i].got, g_st.wit[i].want);
    printf("]}\n");
}

// ---- scalars of a type other than the rep --------------------------------------------------------------
// q*s, s*q, q/s and the compound q*=s, q/=s with a scalar of type S != R: the reference is the very same raw expression on R and S
// (the raw binary operator computes in the common type of R and S; the raw compound operator computes there and converts back to R).
template <typename R, typename S, bool Flt = std::is_floating_point<decltype(std::declval<R>() * std::declval<S>())>::value>
struct MixedRawUB {
    using C = decltype(std::declval<R>() * std::declval<S>());
    static bool fits(i128 v) { return v >= (i128)std::numeric_limits<C>::lowest() && v <= (i128)std::numeric_limits<C>::max(); }
    static bool mul(R a, S b) { return std::is_signed<C>::value && !fits((i128)(C)a * (i128)(C)b); }
    static bool div(R a, S b) { return (C)b == 0 || (std::is_signed<C>::value && (C)a == std::numeric_limits<C>::lowest() && (i128)(C)b == -1); }
};
template <typename R, typename S>
struct MixedRawUB<R, S, true> {
    static bool mul(R, S) { return false; }
    static bool div(R, S) { return false; }
};
// compound forms: Au refuses integral rep (op)= floating scalar by design; everything else must behave like the raw compound operator
template <typename U, typename R, typename S, bool Allowed = !(std::is_integral<R>::value && std::is_floating_point<S>::value)>
struct MixedCompound {
    static void run(R la, S lb, R a, R b) {
        using C = decltype(std::declval<R>() * std::declval<S>());
        // the conversion back to R must be value-preserving or at least defined: skip results a floating->integral or
        // narrowing floating conversion could not hold
        if (!MixedRawUB<R, S>::mul(la, lb)) {
            const C pr = (C)la * (C)lb;
            if (!std::is_floating_point<C>::value || (std::isfinite((ld)pr) && std::fabs((ld)pr) < (ld)std::numeric_limits<R>::max() / 2)) {
                auto q = au::make_quantity<U>(la); R r = la; r *= lb; VF_CMP("q*=s(mixed)", (q *= lb, q.in(U{})), r);
            }
        }
        if (!MixedRawUB<R, S>::div(la, lb)) {
            const C qu = (C)la / (C)lb;
            if (!std::is_floating_point<C>::value || (std::isfinite((ld)qu) && std::fabs((ld)qu) < (ld)std::numeric_limits<R>::max() / 2)) {
                auto q = au::make_quantity<U>(la); R r = la; r /= lb; VF_CMP("q/=s(mixed)", (q /= lb, q.in(U{})), r);
            }
        }
    }
};
template <typename U, typename R, typename S>
struct MixedCompound<U, R, S, false> {
    static void run(R, S, R, R) {}
};
template <typename U, typename R, typename S>
__attribute__((noinline)) void run_mixed_scalar(long id, const char *rname, const char *sname, u64 nrandom, u64 seed) {
    g_st.clear();
    vf::g_inst = id;
    static std::vector<R> va; static std::vector<S> vb;
    va = operands<R>(nrandom, seed, std::is_floating_point<R>{});
    vb = operands<S>(nrandom, seed + 5, std::is_floating_point<S>{});
    // scalars that the rep cannot hold exactly (the raw operators use them as they are)
    { const ld extra[] = {0.1L, 2.5L, 1e-3L, 3.0L, 258.0L, 4294967298.0L, 16777217.0L, 9007199254740993.0L, -3.0L, 1.0L / 3.0L};
      for (ld e : extra) if (e >= (ld)std::numeric_limits<S>::lowest() && e <= (ld)std::numeric_limits<S>::max() && (std::is_floating_point<S>::value || e == std::floor(e))) vb.push_back((S)e); }
    static const R *pa; static const S *pb; static size_t nb;
    pa = va.data(); pb = vb.data(); nb = vb.size();
    const u64 partners = 24;
    using QR = typename decltype(std::declval<au::Quantity<U, R>>() * std::declval<S>())::Rep;
    using RR = decltype(std::declval<R>() * std::declval<S>());
    using QD = typename decltype(std::declval<au::Quantity<U, R>>() / std::declval<S>())::Rep;
    using RD = decltype(std::declval<R>() / std::declval<S>());
    printf("{\"ev\":\"rtype\",\"rep\":\"%s\",\"unit\":\"%s\",\"op\":\"q*s(S=%s)\",\"same\":%d,\"got\":\"%s\",\"want\":\"%s\"}\n", typeid(R).name(), typeid(U).name(), sname, (int)std::is_same<QR, RR>::value, typeid(QR).name(), typeid(RR).name());
    printf("{\"ev\":\"rtype\",\"rep\":\"%s\",\"unit\":\"%s\",\"op\":\"q/s(S=%s)\",\"same\":%d,\"got\":\"%s\",\"want\":\"%s\"}\n", typeid(R).name(), typeid(U).name(), sname, (int)std::is_same<QD, RD>::value, typeid(QD).name(), typeid(RD).name());
    vf::run_loop(0, va.size() * partners, [&](u64 idx) {
        const R a = pa[idx / partners];
        const S sb = pb[((idx / partners) * 7 + (idx % partners) * 31 + 1) % nb];
        const R b = ((ld)sb == (ld)sb && (ld)sb > (ld)std::numeric_limits<R>::lowest() / 2 && (ld)sb < (ld)std::numeric_limits<R>::max() / 2) ? (R)sb : (R)0;  // witness only (the scalar, shown in the rep type)
        { u64 x = 0, y = 0; memcpy(&x, &a, sizeof(R) < 8 ? sizeof(R) : 8); memcpy(&y, &sb, sizeof(S) < 8 ? sizeof(S) : 8); vf::g_aux0 = x; vf::g_aux1 = y; }
        const R la = vf::launder(a); const S lb = vf::launder(sb);
        auto qa = au::make_quantity<U>(la);
        if (!MixedRawUB<R, S>::mul(la, lb)) { VF_CMP("q*s(mixed)", (qa * lb).in(U{}), la * lb); VF_CMP("s*q(mixed)", (lb * qa).in(U{}), lb * la); } else g_st.skipped_raw_ub++;
        if (!MixedRawUB<R, S>::div(la, lb)) VF_CMP("q/s(mixed)", (qa / lb).in(U{}), la / lb); else g_st.skipped_raw_ub++;
        MixedCompound<U, R, S>::run(la, lb, a, b);
    });
    printf("{\"ev\":\"ops\",\"id\":%ld,\"rep\":\"%s\",\"unit\":\"scalar %s\",\"evals\":%llu,\"pairs\":%llu,\"skipped_raw_ub\":%llu,\"mm\":%llu,\"wit\":[", id, rname, sname,
           (unsigned long long)g_st.evals, (unsigned long long)(va.size() * partners), (unsigned long long)g_st.skipped_raw_ub, (unsigned long long)g_st.mm);
    for (int i = 0; i < g_st.nwit; ++i)
        printf("%s{\"op\":\"%s\",\"a\":\"%s\",\"b\":\"%s\",\"got\":\"%s\",\"want\":\"%s\"}", i ? "," : "", g_st.wit[i].op, g_st.wit[i].a, g_st.wit[i].b, g_st.wit[i].got, g_st.wit[i].want);
    printf("]}\n");
}

// ---- round trip over bit patterns -----------------------------------------------------------------
template <typename U, typename R, typename Bitsrc>
__attribute__((noinline)) void run_roundtrip(long id, const char *rname, u64 start, u64 count, u64 stride, u64 seed, int mode) {
    // mode 0: patterns start + i*stride (exhaustive sweeps); mode 1: random 64-bit patterns (+ high word for long double)
    g_st.clear();
    vf::g_inst = id;
    static vf::Rng rg(0);
    rg = vf::Rng(seed);
    vf::run_loop(0, count, [&](u64 i) {
        unsigned char buf[16] = {0};
        u64 pat = mode == 0 ? start + i * stride : rg.next();
        memcpy(buf, &pat, 8);
        if (sizeof(R) > 8) {  // long double: 64-bit mantissa + 16-bit sign/exponent; keep the integer bit canonical unless exp == 0
            uint16_t se = (uint16_t)(rg.next() & 0xffff);
            if ((se & 0x7fff) != 0) buf[7] |= 0x80; else buf[7] &= 0x7f;
            memcpy(buf + 8, &se, 2);
        }
        R x; memcpy(&x, buf, Bits<R>::n < sizeof(R) ? sizeof(R) : sizeof(R));
        vf::g_aux0 = pat;
        R back{}, back2{}, back3{};
        VF_PHASE(vf::PH_OPERATION) { auto q = au::make_quantity<U>(x); back = q.in(U{}); back2 = q.template in<R>(U{}); back3 = q.coerce_in(U{}); }
        g_st.evals += 3;
        if (!Bits<R>::same(back, x)) mismatch("roundtrip", x, x, back, x);
        if (!Bits<R>::same(back2, x)) mismatch("roundtrip in<R>(unit)", x, x, back2, x);
        if (!Bits<R>::same(back3, x)) mismatch("roundtrip coerce_in(unit)", x, x, back3, x);
    });
    printf("{\"ev\":\"roundtrip\",\"id\":%ld,\"rep\":\"%s\",\"evals\":%llu,\"mm\":%llu,\"wit\":[", id, rname, (unsigned long long)g_st.evals, (unsigned long long)g_st.mm);
    for (int i = 0; i < g_st.nwit; ++i)
        printf("%s{\"op\":\"%s\",\"a\":\"%s\",\"got\":\"%s\"}", i ? "," : "", g_st.wit[i].op, g_st.wit[i].a, g_st.wit[i].got);
    printf("]}\n");
}

// ---- layout facts -----------------------------------------------------------------------------------
template <typename W, typename R>
void layout_one(const char *kind, const char *uname, const char *rname) {
    W w{};
    R r{};
    bool zero = memcmp(&w, &r, Bits<R>::n) == 0;
    // default-initialisation (`W x;`, `new W`, array elements) as opposed to value-initialisation: construct onto storage that is not
    // already zero and read the bytes back
    {
        alignas(W) unsigned char buf[sizeof(W) * 3];
        memset(buf, 0xA5, sizeof(buf));
        W *pw = ::new (static_cast<void *>(buf)) W;
        W *pa = ::new (static_cast<void *>(buf + sizeof(W))) W[2];
        unsigned char seen[sizeof(W)];
        memcpy(seen, reinterpret_cast<unsigned char *>(pw), sizeof(W));
        zero = zero && memcmp(seen, &r, Bits<R>::n) == 0;
        memcpy(seen, reinterpret_cast<unsigned char *>(pa + 1), sizeof(W));
        zero = zero && memcmp(seen, &r, Bits<R>::n) == 0;
    }
    printf("{\"ev\":\"layout\",\"kind\":\"%s\",\"unit\":\"%s\",\"rep\":\"%s\",\"sizeof\":%zu,\"alignof\":%zu,\"rsizeof\":%zu,\"ralignof\":%zu,\"triv_copy\":%d,\"triv_dtor\":%d,\"std_layout\":%d,\"default_is_zero\":%d}\n",
           kind, uname, rname, sizeof(W), alignof(W), sizeof(R), alignof(R), (int)std::is_trivially_copyable<W>::value, (int)std::is_trivially_destructible<W>::value,
           (int)std::is_standard_layout<W>::value, (int)zero);
}
template <typename U, typename R>
void layout(const char *uname, const char *rname) {
    layout_one<au::Quantity<U, R>, R>("Quantity", uname, rname);
    layout_one<au::QuantityPoint<U, R>, R>("QuantityPoint", uname, rname);
}

// ---- C19: ZERO ---------------------------------------------------------------------------------------
template <typename U, typename R>
__attribute__((noinline)) void run_zero(long id, const char *rname, const char *uname, u64 nrandom, u64 seed) {
    g_st.clear();
    vf::g_inst = id;
    static std::vector<R> vals;
    vals = operands<R>(nrandom, seed, std::is_floating_point<R>{});
    if (sizeof(R) == 2 && std::is_integral<R>::value) {  // all 16-bit values
        vals.clear();
        for (i128 x = std::numeric_limits<R>::lowest(); x <= (i128)std::numeric_limits<R>::max(); ++x) vals.push_back((R)x);
    }
    static const R *pv;
    pv = vals.data();
    using Q = au::Quantity<U, R>;
    vf::run_loop(0, vals.size(), [&](u64 idx) {
        const R a = pv[idx];
        const R b = R{0};
        { u64 x = 0; memcpy(&x, &a, sizeof(R) < 8 ? sizeof(R) : 8); vf::g_aux0 = x; }
        const R la = vf::launder(a);
        const R z = vf::launder(R{0});
        Q q = au::make_quantity<U>(la);
        VF_CMP("q==Z", q == au::ZERO, la == z); VF_CMP("q!=Z", q != au::ZERO, la != z); VF_CMP("q<Z", q < au::ZERO, la < z);
        VF_CMP("q<=Z", q <= au::ZERO, la <= z); VF_CMP("q>Z", q > au::ZERO, la > z); VF_CMP("q>=Z", q >= au::ZERO, la >= z);
        VF_CMP("Z==q", au::ZERO == q, z == la); VF_CMP("Z!=q", au::ZERO != q, z != la); VF_CMP("Z<q", au::ZERO < q, z < la);
        VF_CMP("Z<=q", au::ZERO <= q, z <= la); VF_CMP("Z>q", au::ZERO > q, z > la); VF_CMP("Z>=q", au::ZERO >= q, z >= la);
        // q + ZERO == q - ZERO == q : same value as the raw x + 0 / x - 0 (in the promoted type)
        VF_CMP("q+Z", (q + au::ZERO).in(U{}), la + z);
        VF_CMP("q-Z", (q - au::ZERO).in(U{}), la - z);
        VF_CMP("Z+q", (au::ZERO + q).in(U{}), z + la);
        if (!RawUB<R>::sub(z, a)) VF_CMP("Z-q", (au::ZERO - q).in(U{}), z - la);
        { Q q2 = q; R r2 = la; r2 += z; VF_CMP("q+=Z", (q2 += au::ZERO, q2.in(U{})), r2); }
        { Q q2 = q; R r2 = la; r2 -= z; VF_CMP("q-=Z", (q2 -= au::ZERO, q2.in(U{})), r2); }
        VF_CMP("Q{Z}", Q{au::ZERO}.in(U{}), z);
        { Q q3 = au::ZERO; VF_CMP("Q=Z", q3.in(U{}), z); }
        { Q q4 = q; q4 = au::ZERO; VF_CMP("q=Z", q4.in(U{}), z); }
        { R t = au::ZERO; VF_CMP("T=Z", t, z); }
        VF_CMP("min", min(q, au::ZERO).in(U{}), std::min(la, z));
        VF_CMP("max", max(q, au::ZERO).in(U{}), std::max(la, z));
    });
    printf("{\"ev\":\"zero\",\"id\":%ld,\"rep\":\"%s\",\"unit\":\"%s\",\"evals\":%llu,\"values\":%zu,\"mm\":%llu,\"wit\":[", id, rname, uname,
           (unsigned long long)g_st.evals, vals.size(), (unsigned long long)g_st.mm);
    for (int i = 0; i < g_st.nwit; ++i)
        printf("%s{\"op\":\"%s\",\"a\":\"%s\",\"got\":\"%s\",\"want\":\"%s\"}", i ? "," : "", g_st.wit[i].op, g_st.wit[i].a, g_st.wit[i].got, g_st.wit[i].want);
    printf("]}\n");
}

// ---- C19 with user-defined reps -----------------------------------------------------------------------
// Au accepts any non-empty class type with arithmetic operators as a rep.  A rep's default-constructed value need not be its
// numeric zero: these two wrappers default to NaN / to a sentinel, so "ZERO is the exact value 0 for any rep" is observable
// separately from "ZERO is Rep{}".
template <typename B, int Tag>
struct UdRep {
    B v;
    constexpr UdRep() : v(Tag == 0 ? (B)__builtin_nan("") : (B)-999) {}
    constexpr UdRep(B x) : v(x) {}  // NOLINT(runtime/explicit)
    friend constexpr UdRep operator+(UdRep a, UdRep b) { return {a.v + b.v}; }
    friend constexpr UdRep operator-(UdRep a, UdRep b) { return {a.v - b.v}; }
    friend constexpr UdRep operator*(UdRep a, UdRep b) { return {a.v * b.v}; }
    friend constexpr UdRep operator/(UdRep a, UdRep b) { return {a.v / b.v}; }
    friend constexpr UdRep operator-(UdRep a) { return {-a.v}; }
    friend constexpr UdRep operator+(UdRep a) { return a; }
    UdRep &operator+=(UdRep o) { v += o.v; return *this; }
    UdRep &operator-=(UdRep o) { v -= o.v; return *this; }
    friend constexpr bool operator==(UdRep a, UdRep b) { return a.v == b.v; }
    friend constexpr bool operator!=(UdRep a, UdRep b) { return a.v != b.v; }
    friend constexpr bool operator<(UdRep a, UdRep b) { return a.v < b.v; }
    friend constexpr bool operator<=(UdRep a, UdRep b) { return a.v <= b.v; }
    friend constexpr bool operator>(UdRep a, UdRep b) { return a.v > b.v; }
    friend constexpr bool operator>=(UdRep a, UdRep b) { return a.v >= b.v; }
};
template <typename U, typename B, int Tag>
__attribute__((noinline)) void run_zero_udrep(long id, const char *rname, const char *uname) {
    using R = UdRep<B, Tag>;
    using Q = au::Quantity<U, R>;
    g_st.clear();
    vf::g_inst = id;
    static std::vector<B> vals;
    vals.clear();
    const long double c[] = {0, 1, -1, 2, -7, 1000, -999, 0.5L, -0.25L, 1e9L};
    for (long double x : c) if (std::is_floating_point<B>::value || x == (long long)x) vals.push_back((B)x);
    if (std::is_floating_point<B>::value) { vals.push_back((B)-0.0); vals.push_back((B)__builtin_nan("")); vals.push_back((B)__builtin_inf()); }
    static const B *pv;
    pv = vals.data();
    vf::run_loop(0, vals.size(), [&](u64 idx) {
        const B a = pv[idx]; const B b = B(0);
        { u64 x = 0; memcpy(&x, &a, sizeof(B) < 8 ? sizeof(B) : 8); vf::g_aux0 = x; }
        const B la = vf::launder(a); const B z = vf::launder(B(0));
        Q q = au::make_quantity<U>(R(la));
        VF_CMP("q==Z", q == au::ZERO, la == z); VF_CMP("q!=Z", q != au::ZERO, la != z); VF_CMP("q<Z", q < au::ZERO, la < z);
        VF_CMP("q<=Z", q <= au::ZERO, la <= z); VF_CMP("q>Z", q > au::ZERO, la > z); VF_CMP("q>=Z", q >= au::ZERO, la >= z);
        VF_CMP("Z==q", au::ZERO == q, z == la); VF_CMP("Z!=q", au::ZERO != q, z != la); VF_CMP("Z<q", au::ZERO < q, z < la);
        VF_CMP("Z<=q", au::ZERO <= q, z <= la); VF_CMP("Z>q", au::ZERO > q, z > la); VF_CMP("Z>=q", au::ZERO >= q, z >= la);
        VF_CMP("q+Z", (q + au::ZERO).in(U{}).v, la + z);
        VF_CMP("q-Z", (q - au::ZERO).in(U{}).v, la - z);
        VF_CMP("Z+q", (au::ZERO + q).in(U{}).v, z + la);
        VF_CMP("Q{Z}", Q{au::ZERO}.in(U{}).v, z);
        { Q q3 = au::ZERO; VF_CMP("Q=Z", q3.in(U{}).v, z); }
        { Q q4 = q; q4 = au::ZERO; VF_CMP("q=Z", q4.in(U{}).v, z); }
        { Q q2 = q; B r2 = la; r2 += z; VF_CMP("q+=Z", (q2 += au::ZERO, q2.in(U{}).v), r2); }
    });
    printf("{\"ev\":\"zero\",\"id\":%ld,\"rep\":\"%s\",\"unit\":\"%s\",\"evals\":%llu,\"values\":%zu,\"mm\":%llu,\"wit\":[", id, rname, uname,
           (unsigned long long)g_st.evals, vals.size(), (unsigned long long)g_st.mm);
    for (int i = 0; i < g_st.nwit; ++i)
        printf("%s{\"op\":\"%s\",\"a\":\"%s\",\"got\":\"%s\",\"want\":\"%s\"}", i ? "," : "", g_st.wit[i].op, g_st.wit[i].a, g_st.wit[i].got, g_st.wit[i].want);
    printf("]}\n");
}

}  // namespace vfw
#endif
