// Plane A harness for C15: unit-aware math functions.
#ifndef VF_MATH_HH
#define VF_MATH_HH

#include <cfenv>
#include <cmath>
#include <vector>

#include "au/au.hh"
#include "au/units/radians.hh"
#include "vf_monitor.hh"
#include "vf_wrapper.hh"

namespace vfm15 {
using u64 = uint64_t;
using i128 = __int128;
typedef long double ld;

struct Stats {
    u64 evals, skipped, mm;
    struct W { const char *op; char a[40], b[40], got[40], want[40]; } wit[16];
    int nwit;
    void clear() { memset(this, 0, sizeof(*this)); }
};
static Stats g_st;
template <typename A, typename B, typename G, typename Wt>
void mismatch(const char *op, A a, B b, G got, Wt want) {
    g_st.mm++;
    if (g_st.nwit < 16) {
        auto &w = g_st.wit[g_st.nwit++]; w.op = op;
        vfw::fmt(w.a, a, std::is_floating_point<A>{}); vfw::fmt(w.b, b, std::is_floating_point<B>{});
        vfw::fmt(w.got, got, std::is_floating_point<G>{}); vfw::fmt(w.want, want, std::is_floating_point<Wt>{});
    }
}
inline void dump(const char *ev, long id, const char *desc) {
    printf("{\"ev\":\"%s\",\"id\":%ld,\"desc\":\"%s\",\"evals\":%llu,\"skipped\":%llu,\"mm\":%llu,\"wit\":[", ev, id, desc, (unsigned long long)g_st.evals, (unsigned long long)g_st.skipped, (unsigned long long)g_st.mm);
    for (int i = 0; i < g_st.nwit; ++i)
        printf("%s{\"op\":\"%s\",\"a\":\"%s\",\"b\":\"%s\",\"got\":\"%s\",\"want\":\"%s\"}", i ? "," : "", g_st.wit[i].op, g_st.wit[i].a, g_st.wit[i].b, g_st.wit[i].got, g_st.wit[i].want);
    printf("]}\n");
}

template <typename R>
std::vector<R> rounding_values(ld f, u64 nrandom, u64 seed, std::false_type /*integral*/, ld = 0) {
    std::vector<R> v;
    const i128 lo = std::numeric_limits<R>::lowest(), hi = std::numeric_limits<R>::max();
    for (i128 x = -65536; x <= 65536; ++x) if (x >= lo && x <= hi) v.push_back((R)x);
    vf::Rng r(seed);
    for (u64 i = 0; i < nrandom; ++i) { i128 y = (i128)(r.next_loguniform() >> 12); if (lo < 0 && (r.next() & 1)) y = -y; if (y >= lo && y <= hi) v.push_back((R)y); }
    (void)f;
    return v;
}
template <typename R>
std::vector<R> rounding_values(ld f, u64 nrandom, u64 seed, std::true_type /*floating*/, ld off = 0) {
    std::vector<R> v = vfw::float_operands<R>(nrandom / 2, seed);
    vf::Rng r(seed + 9);
    // values that land on k + 1/2, k, k +- one ulp in the *target* unit
    for (u64 i = 0; i < nrandom; ++i) {
        ld k = (ld)((long long)(r.next_loguniform() >> 40)) * ((r.next() & 1) ? 1 : -1);
        ld t = k + ((r.next() % 3) == 0 ? 0.5L : (r.next() % 2 ? 0.0L : 0.25L));
        R x = (R)((t - off) / f);
        v.push_back(x);
        v.push_back(std::nextafter(x, std::numeric_limits<R>::infinity()));
        v.push_back(std::nextafter(x, -std::numeric_limits<R>::infinity()));
    }
    return v;
}

// floor/ceil/round of the exact value v, allowing for the conversion's rounding error (band around v)
inline bool round_ok(ld got, ld v, ld band, int mode) {
    auto f = [&](ld x) { return mode == 0 ? std::floor(x) : (mode == 1 ? std::ceil(x) : std::round(x)); };
    ld a = f(v - band), b = f(v + band);
    if (mode == 2) {  // ties: |round - v| <= 1/2 is all that is demanded
        return std::fabs(got - v) <= 0.5L + band && got == std::floor(got);
    }
    return got >= a && got <= b && got == std::floor(got);
}

template <bool Pt, typename U, typename R> struct RoundOperand { static auto make(R x) { return au::make_quantity<U>(x); } };
template <typename U, typename R> struct RoundOperand<true, U, R> { static auto make(R x) { return au::QuantityPointMaker<U>{}(x); } };

// Pt: the operand is a QuantityPoint, and the exact value in the rounding unit is x * f + off (off = difference of the two
// origins, in the rounding unit)
template <typename SrcU, typename R, typename DstU, bool Pt = false>
__attribute__((noinline)) void run_rounding(long id, const char *desc, ld f, u64 nrandom, u64 seed, ld off = 0) {
    using W = std::conditional_t<std::is_floating_point<R>::value, R, double>;  // type the std function works in
    g_st.clear();
    vf::g_inst = id;
    static std::vector<R> vals;
    vals = rounding_values<R>(f, nrandom, seed, std::is_floating_point<R>{}, off);
    static const R *pv;
    pv = vals.data();
    const ld eps = (ld)std::numeric_limits<W>::epsilon();
    vf::run_loop(0, vals.size(), [&](u64 i) {
        std::fesetround(FE_TONEAREST);  // (a trapped call may have left a directed mode behind)
        const R x = vf::launder(pv[i]);
        { u64 b = 0; memcpy(&b, &x, sizeof(R) < 8 ? sizeof(R) : 8); vf::g_aux0 = b; }
        if (!std::isfinite((ld)x)) { g_st.skipped++; return; }
        const ld v = (ld)x * f + off;
        if (std::fabs(v) > std::ldexp((ld)1, std::numeric_limits<W>::digits - 2)) { g_st.skipped++; return; }  // no fractional part left to round
        auto q = RoundOperand<Pt, SrcU, R>::make(x);
        W fl{}, ce{}, ro{}, fl_as{}, ce_as{}, ro_as{};
        long long ro_i = 0, fl_i = 0;
        VF_PHASE(vf::PH_OPERATION) {
            fl = au::floor_in(DstU{}, q); ce = au::ceil_in(DstU{}, q); ro = au::round_in(DstU{}, q);
            fl_as = au::floor_as(DstU{}, q).in(DstU{}); ce_as = au::ceil_as(DstU{}, q).in(DstU{}); ro_as = au::round_as(DstU{}, q).in(DstU{});
            ro_i = au::round_in<long long>(DstU{}, q); fl_i = au::floor_as<long long>(DstU{}, q).in(DstU{});
        }
        g_st.evals += 8;
        const ld band = 8 * eps * (Pt ? std::fabs((ld)x * f) + std::fabs(off) : std::fabs(v)) + std::ldexp((ld)1, -60);
        if (!round_ok((ld)fl, v, band, 0)) mismatch("floor_in", x, x, fl, (W)std::floor(v));
        if (!round_ok((ld)ce, v, band, 1)) mismatch("ceil_in", x, x, ce, (W)std::ceil(v));
        if (!round_ok((ld)ro, v, band, 2)) mismatch("round_in", x, x, ro, (W)std::round(v));
        if (Pt ? !(fl_as == fl) : !vfw::same_value(fl_as, fl)) mismatch("floor_as", x, x, fl_as, fl);  // (a point's .in(u) adds the zero origin difference: -0.0 + 0 is +0.0)
        if (Pt ? !(ce_as == ce) : !vfw::same_value(ce_as, ce)) mismatch("ceil_as", x, x, ce_as, ce);  // (a point's .in(u) adds the zero origin difference: -0.0 + 0 is +0.0)
        if (Pt ? !(ro_as == ro) : !vfw::same_value(ro_as, ro)) mismatch("round_as", x, x, ro_as, ro);  // (a point's .in(u) adds the zero origin difference: -0.0 + 0 is +0.0)
        if ((ld)ro_i != (ld)ro) mismatch("round_in<T>", x, x, ro_i, (long long)ro);
        if ((ld)fl_i != (ld)fl) mismatch("floor_as<T>", x, x, fl_i, (long long)fl);
        // ordering between the three
        if (!((ld)fl <= (ld)ro && (ld)ro <= (ld)ce && (ld)ce - (ld)fl <= 1)) mismatch("floor<=round<=ceil", x, x, ro, ro);
        // the same three under the directed rounding modes: std::floor/ceil/round do not depend on the current rounding
        // direction, and the unit conversion's own error (now up to one ulp, in one direction) is inside the same band
        static const int modes[3] = {FE_DOWNWARD, FE_UPWARD, FE_TOWARDZERO};
        static const char *mname[3][3] = {{"floor_in@FE_DOWNWARD", "ceil_in@FE_DOWNWARD", "round_in@FE_DOWNWARD"}, {"floor_in@FE_UPWARD", "ceil_in@FE_UPWARD", "round_in@FE_UPWARD"},
                                          {"floor_in@FE_TOWARDZERO", "ceil_in@FE_TOWARDZERO", "round_in@FE_TOWARDZERO"}};
        if ((i & 3) == 0) {
            for (int mi = 0; mi < 3; ++mi) {
                W f2{}, c2{}, r2{};
                VF_PHASE(vf::PH_OPERATION) {
                    std::fesetround(modes[mi]);
                    f2 = au::floor_in(DstU{}, q); c2 = au::ceil_in(DstU{}, q); r2 = au::round_in(DstU{}, q);
                    std::fesetround(FE_TONEAREST);
                }
                std::fesetround(FE_TONEAREST);
                g_st.evals += 3;
                if (!round_ok((ld)f2, v, band, 0)) mismatch(mname[mi][0], x, x, f2, (W)std::floor(v));
                if (!round_ok((ld)c2, v, band, 1)) mismatch(mname[mi][1], x, x, c2, (W)std::ceil(v));
                if (!round_ok((ld)r2, v, band, 2)) mismatch(mname[mi][2], x, x, r2, (W)std::round(v));
            }
        }
    });
    std::fesetround(FE_TONEAREST);
    dump("mround", id, desc);
}

// ---- inversion -------------------------------------------------------------------------------------
template <typename SrcU, typename R, typename DstU, bool Implicit, bool I = std::is_integral<R>::value>
struct Inv {
    static void run(long id, const char *desc, u64 K, ld, u64, u64) {
        g_st.clear();
        vf::g_inst = id;
        std::vector<R> vals;
        const i128 hi = std::numeric_limits<R>::max(), lo = std::numeric_limits<R>::lowest();
        for (i128 n = 1; n <= 1000; ++n) if (n <= hi) vals.push_back((R)n);
        const i128 extra[] = {(i128)K, (i128)K - 1, (i128)K + 1, (i128)K / 2, (i128)K / 2 + 1, (i128)K / 3, 1001, 31622, 31623, -1, -7, -(i128)K, hi, lo, lo + 1, 2, 3};
        for (i128 e : extra) if (e >= lo && e <= hi && e != 0) vals.push_back((R)e);
        static const R *pv; static size_t nv;
        pv = vals.data(); nv = vals.size();
        vf::run_loop(0, nv, [&](u64 i) {
            const R x = vf::launder(pv[i]);
            vf::g_aux0 = (u64)x;
            if (std::is_signed<R>::value && (i128)x == lo && (i128)K == -1) { g_st.skipped++; return; }
            auto q = au::make_quantity<SrcU>(x);
            const i128 want = (i128)K / (i128)x;  // trunc(K / x)
            R e_in{}, e_as{};
            VF_PHASE(vf::PH_OPERATION) { e_in = au::inverse_in<R>(DstU{}, q); e_as = au::inverse_as<R>(DstU{}, q).in(DstU{}); }
            g_st.evals += 2;
            if ((i128)e_in != want) mismatch("inverse_in<R>", x, x, e_in, (R)want);
            if ((i128)e_as != want) mismatch("inverse_as<R>", x, x, e_as, (R)want);
            implicit(q, x, want, std::integral_constant<bool, Implicit>{});
        });
        dump("minv", id, desc);
    }
    template <typename Q>
    static void implicit(Q q, R x, i128 want, std::true_type) {
        R i_in{}, i_as{}, back{};
        VF_PHASE(vf::PH_OPERATION) {
            i_in = au::inverse_in(DstU{}, q); i_as = au::inverse_as(DstU{}, q).in(DstU{});
        }
        g_st.evals += 2;
        if ((i128)i_in != want) mismatch("inverse_in", x, x, i_in, (R)want);
        if ((i128)i_as != want) mismatch("inverse_as", x, x, i_as, (R)want);
        if ((i128)x >= 1 && (i128)x <= 1000) {
            VF_PHASE(vf::PH_OPERATION) { back = au::inverse_as(SrcU{}, au::inverse_as(DstU{}, q)).in(SrcU{}); }
            g_st.evals++;
            if (back != x) mismatch("inverse(inverse(n))", x, x, back, x);
        }
    }
    template <typename Q>
    static void implicit(Q, R, i128, std::false_type) {}
};
template <typename SrcU, typename R, typename DstU, bool Implicit>
struct Inv<SrcU, R, DstU, Implicit, false> {
    static void run(long id, const char *desc, u64, ld K, u64 nrandom, u64 seed) {
        g_st.clear();
        vf::g_inst = id;
        static std::vector<R> vals;
        vals = vfw::float_operands<R>(nrandom, seed);
        for (int n = 1; n <= 1000; ++n) vals.push_back((R)n);
        static const R *pv;
        pv = vals.data();
        vf::run_loop(0, vals.size(), [&](u64 i) {
            const R x = vf::launder(pv[i]);
            if (!std::isfinite((ld)x) || x == 0) { g_st.skipped++; return; }
            auto q = au::make_quantity<SrcU>(x);
            R a{}, b{}, c{};
            VF_PHASE(vf::PH_OPERATION) { a = au::inverse_in(DstU{}, q); b = au::inverse_as(DstU{}, q).in(DstU{}); c = au::inverse_in<R>(DstU{}, q); }
            g_st.evals += 3;
            ld want = K / (ld)x;
            if (!std::isfinite(want) || std::fabs(want) > (ld)std::numeric_limits<R>::max() / 2 || std::fabs(want) < (ld)std::numeric_limits<R>::min() * 4) return;
            int ex; std::frexp(want, &ex);
            ld tol = 4 * std::ldexp((ld)1, ex - std::numeric_limits<R>::digits);
            if (std::fabs((ld)a - want) > tol) mismatch("inverse_in", x, x, a, (R)want);
            if (!vfw::same_value(a, b) || !vfw::same_value(a, c)) mismatch("inverse forms differ", x, x, b, a);
        });
        dump("minv", id, desc);
    }
};

// explicit-rep inversion with a target rep other than the source rep: inverse_in<T>(dst, q) == trunc(K / x) computed in the
// common type of T and R and cast to T
template <typename T>
ld ulp15(ld e) { e = std::fabs(e); if (e == 0 || !std::isfinite(e)) return 0; int ex; std::frexp(e, &ex); return std::ldexp((ld)1, ex - std::numeric_limits<T>::digits); }
template <typename SrcU, typename R, typename DstU, typename T>
__attribute__((noinline)) void run_inv_mixed(long id, const char *desc, ld K, u64 nrandom, u64 seed) {
    using C = std::common_type_t<T, R>;
    g_st.clear();
    vf::g_inst = id;
    static std::vector<R> vals;
    vals.clear();
    for (int n = 1; n <= 400; ++n) { vals.push_back((R)n); if (std::is_floating_point<R>::value) { vals.push_back((R)(n + 0.5L)); vals.push_back((R)(n * 0.3L)); vals.push_back((R)(n / 64.0L)); vals.push_back((R)(-n - 0.25L)); } else if (std::is_signed<R>::value) vals.push_back((R)-n); }
    { vf::Rng r(seed); for (u64 i = 0; i < nrandom; ++i) { ld y = (ld)(r.next() % 2000000 + 1) / (std::is_floating_point<R>::value ? 128.0L : 1.0L); if (y <= (ld)std::numeric_limits<R>::max()) vals.push_back((R)y); } }
    static const R *pv;
    pv = vals.data();
    vf::run_loop(0, vals.size(), [&](u64 i) {
        const R x = vf::launder(pv[i]);
        { u64 b = 0; memcpy(&b, &x, sizeof(R) < 8 ? sizeof(R) : 8); vf::g_aux0 = b; }
        if (!std::isfinite((ld)x) || x == 0) { g_st.skipped++; return; }
        const ld want = K / (ld)x;
        const ld tmax = std::is_integral<T>::value ? std::ldexp((ld)1, std::numeric_limits<T>::digits - 2) : (ld)std::numeric_limits<T>::max() / 4;
        if (std::fabs(want) > tmax || (std::is_unsigned<T>::value && want < 0)) { g_st.skipped++; return; }
        auto q = au::make_quantity<SrcU>(x);
        T a{}, b{};
        VF_PHASE(vf::PH_OPERATION) { a = au::inverse_in<T>(DstU{}, q); b = au::inverse_as<T>(DstU{}, q).in(DstU{}); }
        g_st.evals += 2;
        // error the computation in C may carry (K itself may be rounded into C when C is floating; integral C is exact)
        const ld e = std::is_floating_point<C>::value ? 6 * ulp15<C>(want) : 0;
        if (std::is_integral<T>::value) {
            const ld lo = std::trunc(want - e), hi = std::trunc(want + e);
            if ((ld)a < std::min(lo, hi) || (ld)a > std::max(lo, hi)) mismatch("inverse_in<T> (T != R)", x, x, a, (T)std::trunc(want));
        } else {
            if (!(std::fabs((ld)a - want) <= e + 2 * ulp15<T>(want))) mismatch("inverse_in<T> (T != R)", x, x, a, (T)want);
        }
        if (!vfw::same_value(a, b)) mismatch("inverse_as<T> != inverse_in<T>", x, x, b, a);
    });
    dump("minv", id, desc);
}

// ---- neighbourhood oracle ------------------------------------------------------------------------------
template <typename T, typename F>
bool matches_neighbour(T got, ld exact_operand, F f, bool identity) {
    T y0 = (T)exact_operand;
    if (vfw::same_value(got, (T)f(y0))) return true;
    if (identity) return false;
    T up = y0, dn = y0;
    for (int k = 0; k < 2; ++k) {
        up = std::nextafter(up, std::numeric_limits<T>::infinity());
        dn = std::nextafter(dn, -std::numeric_limits<T>::infinity());
        if (vfw::same_value(got, (T)f(up)) || vfw::same_value(got, (T)f(dn))) return true;
    }
    return false;
}
template <typename T, typename F>
bool matches_neighbour2(T got, ld ea, ld eb, F f, bool ida, bool idb) {
    T a0 = (T)ea, b0 = (T)eb;
    T as[5] = {a0, a0, a0, a0, a0}, bs[5] = {b0, b0, b0, b0, b0};
    int na = 1, nb = 1;
    if (!ida) { as[1] = std::nextafter(a0, std::numeric_limits<T>::infinity()); as[2] = std::nextafter(as[1], std::numeric_limits<T>::infinity()); as[3] = std::nextafter(a0, -std::numeric_limits<T>::infinity()); as[4] = std::nextafter(as[3], -std::numeric_limits<T>::infinity()); na = 5; }
    if (!idb) { bs[1] = std::nextafter(b0, std::numeric_limits<T>::infinity()); bs[2] = std::nextafter(bs[1], std::numeric_limits<T>::infinity()); bs[3] = std::nextafter(b0, -std::numeric_limits<T>::infinity()); bs[4] = std::nextafter(bs[3], -std::numeric_limits<T>::infinity()); nb = 5; }
    for (int i = 0; i < na; ++i) for (int j = 0; j < nb; ++j) if (vfw::same_value(got, (T)f(as[i], bs[j]))) return true;
    return false;
}

// angle unit AU with `f` radians per unit; R floating or integral (then the library promotes to double)
template <typename AU, typename R>
__attribute__((noinline)) void run_trig(long id, const char *desc, ld f, bool identity, u64 nrandom, u64 seed) {
    using W = std::conditional_t<std::is_floating_point<R>::value, R, double>;
    g_st.clear();
    vf::g_inst = id;
    static std::vector<R> vals;
    vals = vfw::operands<R>(nrandom, seed, std::is_floating_point<R>{});
    const R extra[] = {R(0), R(30), R(45), R(60), R(90), R(180), R(1), R(2), R(3), R(57), R(100)};
    for (R e : extra) { vals.push_back(e); }
    static const R *pv;
    pv = vals.data();
    vf::run_loop(0, vals.size(), [&](u64 i) {
        const R x = vf::launder(pv[i]);
        { u64 b = 0; memcpy(&b, &x, sizeof(R) < 8 ? sizeof(R) : 8); vf::g_aux0 = b; }
        if (!std::isfinite((ld)x)) { g_st.skipped++; return; }
        const ld rad = (ld)x * f;
        if (std::fabs(rad) > 1e15L) { g_st.skipped++; return; }
        auto q = au::make_quantity<AU>(x);
        W s{}, c{}, t{};
        VF_PHASE(vf::PH_OPERATION) { s = au::sin(q); c = au::cos(q); t = au::tan(q); }
        g_st.evals += 3;
        if (!matches_neighbour<W>(s, rad, [](W y) { return std::sin(y); }, identity)) mismatch("sin", x, x, s, (W)std::sin((W)rad));
        if (!matches_neighbour<W>(c, rad, [](W y) { return std::cos(y); }, identity)) mismatch("cos", x, x, c, (W)std::cos((W)rad));
        if (!matches_neighbour<W>(t, rad, [](W y) { return std::tan(y); }, identity)) mismatch("tan", x, x, t, (W)std::tan((W)rad));
        // inverse trig: raw number in, radians out (bit-exact, there is no conversion)
        const W u = (W)std::fmod((ld)x, 1.0L);
        W as_{}, ac{}, at{}, at2{};
        VF_PHASE(vf::PH_OPERATION) {
            as_ = au::arcsin(u).in(au::radians); ac = au::arccos(u).in(au::radians); at = au::arctan((W)x).in(au::radians);
            at2 = au::arctan2((W)x, u).in(au::radians);
        }
        g_st.evals += 4;
        if (!vfw::same_value(as_, (W)std::asin(u))) mismatch("arcsin", u, u, as_, (W)std::asin(u));
        if (!vfw::same_value(ac, (W)std::acos(u))) mismatch("arccos", u, u, ac, (W)std::acos(u));
        if (!vfw::same_value(at, (W)std::atan((W)x))) mismatch("arctan", x, x, at, (W)std::atan((W)x));
        if (!vfw::same_value(at2, (W)std::atan2((W)x, u))) mismatch("arctan2(raw)", x, u, at2, (W)std::atan2((W)x, u));
    });
    dump("mtrig", id, desc);
}

// two operands in units U1 = k1 * CU, U2 = k2 * CU (k integer): functions evaluated in the common unit CU
template <typename U1, typename U2, typename R, typename CU>
__attribute__((noinline)) void run_two(long id, const char *desc, ld k1, ld k2, u64 nrandom, u64 seed) {
    g_st.clear();
    vf::g_inst = id;
    static std::vector<R> va, vb;
    va = vfw::float_operands<R>(nrandom, seed); vb = vfw::float_operands<R>(nrandom, seed + 5);
    const size_t nb = vb.size();
    static const R *pa, *pb;
    pa = va.data(); pb = vb.data();
    const bool ida = (k1 == 1), idb = (k2 == 1);
    vf::run_loop(0, va.size() * 4, [&](u64 idx) {
        const R a = vf::launder(pa[idx / 4]);
        const R b = vf::launder(pb[((idx / 4) * 13 + (idx % 4) * 29 + 5) % nb]);
        { u64 x = 0, y = 0; memcpy(&x, &a, sizeof(R) < 8 ? sizeof(R) : 8); memcpy(&y, &b, sizeof(R) < 8 ? sizeof(R) : 8); vf::g_aux0 = x; vf::g_aux1 = y; }
        if (!std::isfinite((ld)a) || !std::isfinite((ld)b)) { g_st.skipped++; return; }
        const ld A = (ld)a * k1, B = (ld)b * k2;
        if (std::fabs(A) > (ld)std::numeric_limits<R>::max() / 8 || std::fabs(B) > (ld)std::numeric_limits<R>::max() / 8) { g_st.skipped++; return; }
        auto qa = au::make_quantity<U1>(a);
        auto qb = au::make_quantity<U2>(b);
        R fm{}, rm{}, hy{}, at{}, mn{}, mx{}, cl{};
        VF_PHASE(vf::PH_OPERATION) {
            hy = au::hypot(qa, qb).in(CU{}); at = au::arctan2(qa, qb).in(au::radians);
            mn = min(qa, qb).in(CU{}); mx = max(qa, qb).in(CU{}); cl = clamp(qa, min(qb, qb), max(qb, qb)).in(CU{});
            if (b != 0) { fm = au::fmod(qa, qb).in(CU{}); rm = au::remainder(qa, qb).in(CU{}); }
        }
        g_st.evals += 7;
        if (!matches_neighbour2<R>(hy, A, B, [](R x, R y) { return std::hypot(x, y); }, ida, idb)) mismatch("hypot", a, b, hy, (R)std::hypot((R)A, (R)B));
        if (!matches_neighbour2<R>(at, A, B, [](R x, R y) { return std::atan2(x, y); }, ida, idb)) mismatch("arctan2", a, b, at, (R)std::atan2((R)A, (R)B));
        if (b != 0) {
            if (!matches_neighbour2<R>(fm, A, B, [](R x, R y) { return std::fmod(x, y); }, ida, idb)) mismatch("fmod", a, b, fm, (R)std::fmod((R)A, (R)B));
            if (!matches_neighbour2<R>(rm, A, B, [](R x, R y) { return std::remainder(x, y); }, ida, idb)) mismatch("remainder", a, b, rm, (R)std::remainder((R)A, (R)B));
        }
        // min / max: the result is one of the two operands expressed in the common unit
        if (!matches_neighbour2<R>(mn, A, B, [](R x, R y) { return y < x ? y : x; }, ida, idb)) mismatch("min", a, b, mn, (R)(B < A ? B : A));
        if (!matches_neighbour2<R>(mx, A, B, [](R x, R y) { return y < x ? x : y; }, ida, idb)) mismatch("max", a, b, mx, (R)(B < A ? A : B));
        if (!matches_neighbour2<R>(cl, A, B, [](R, R y) { return y; }, ida, idb)) mismatch("clamp", a, b, cl, (R)B);
    });
    dump("mtwo", id, desc);
}

template <typename U, typename R>
__attribute__((noinline)) void run_misc(long id, const char *desc, u64 nrandom, u64 seed) {
    g_st.clear();
    vf::g_inst = id;
    static std::vector<R> vals;
    vals = vfw::operands<R>(nrandom, seed, std::is_floating_point<R>{});
    static const R *pv; static size_t n;
    pv = vals.data(); n = vals.size();
    vf::run_loop(0, n, [&](u64 i) {
        const R x = vf::launder(pv[i]);
        const R y = vf::launder(pv[(i * 7 + 3) % n]);
        { u64 b = 0; memcpy(&b, &x, sizeof(R) < 8 ? sizeof(R) : 8); vf::g_aux0 = b; }
        auto q = au::make_quantity<U>(x), p = au::make_quantity<U>(y);
        // std::abs works in the promoted type: |lowest()| is undefined only when that type is the rep itself (int and wider)
        if (std::is_signed<R>::value && std::is_integral<R>::value && sizeof(R) >= sizeof(int) && x == std::numeric_limits<R>::lowest()) { g_st.skipped++; return; }
        auto ab = au::abs(q).in(U{});
        g_st.evals++;
        if (!std::is_same<decltype(ab), decltype(std::abs(x))>::value) mismatch("abs result rep", x, x, ab, std::abs(x));
        else if (!vfw::same_value(ab, (decltype(ab))std::abs(x))) mismatch("abs", x, x, ab, (decltype(ab))std::abs(x));
        auto cs = au::copysign(q, p).in(U{});
        auto cs2 = au::copysign(q, y).in(U{});
        auto cs3 = au::copysign(x, p);
        g_st.evals += 3;
        if (!vfw::same_value(cs, (decltype(cs))std::copysign(x, y))) mismatch("copysign(q,q)", x, y, cs, (decltype(cs))std::copysign(x, y));
        if (!vfw::same_value(cs2, (decltype(cs2))std::copysign(x, y))) mismatch("copysign(q,s)", x, y, cs2, (decltype(cs2))std::copysign(x, y));
        if (!vfw::same_value(cs3, (decltype(cs3))std::copysign(x, y))) mismatch("copysign(s,q)", x, y, cs3, (decltype(cs3))std::copysign(x, y));
        bool nn = au::isnan(q);
        g_st.evals++;
        if (nn != (bool)std::isnan((ld)x)) mismatch("isnan", x, x, (int)nn, (int)std::isnan((ld)x));
        auto mn = min(q, p).in(U{}), mx = max(q, p).in(U{}), cl = clamp(q, min(p, p), max(p, p)).in(U{});
        g_st.evals += 3;
        if (!(x != x || y != y)) {
            if (!vfw::same_value(mn, y < x ? y : x)) mismatch("min(same unit)", x, y, mn, y < x ? y : x);
            if (!vfw::same_value(mx, y < x ? x : y)) mismatch("max(same unit)", x, y, mx, y < x ? x : y);
            if (!vfw::same_value(cl, y)) mismatch("clamp(q,p,p)", x, y, cl, y);
        }
    });
    // every ordered pair/triple of special values (signed zeros, NaN, infinities, extremes): bitwise the std functions
    {
        static std::vector<R> sp;
        sp.clear();
        const R base[] = {R(0), R(1), R(-1), R(2), std::numeric_limits<R>::max(), std::numeric_limits<R>::lowest(), std::numeric_limits<R>::min()};
        for (R b : base) sp.push_back(b);
        if (std::is_floating_point<R>::value) { sp.push_back(-R(0)); sp.push_back(std::numeric_limits<R>::quiet_NaN()); sp.push_back(std::numeric_limits<R>::infinity()); sp.push_back(-std::numeric_limits<R>::infinity()); sp.push_back(std::numeric_limits<R>::denorm_min()); }
        static const R *ps; static size_t ns;
        ps = sp.data(); ns = sp.size();
        vf::run_loop(0, ns * ns * ns, [&](u64 i) {
            const R x = vf::launder(ps[i % ns]), y = vf::launder(ps[(i / ns) % ns]), z = vf::launder(ps[i / ns / ns]);
            { u64 b = 0, c = 0; memcpy(&b, &x, sizeof(R) < 8 ? sizeof(R) : 8); memcpy(&c, &y, sizeof(R) < 8 ? sizeof(R) : 8); vf::g_aux0 = b; vf::g_aux1 = c; }
            auto q = au::make_quantity<U>(x), p = au::make_quantity<U>(y), r = au::make_quantity<U>(z);
            R mn{}, mx{}, cl{};
            VF_PHASE(vf::PH_OPERATION) { mn = min(q, p).in(U{}); mx = max(q, p).in(U{}); }
            g_st.evals += 2;
            if (!vfw::Bits<R>::same(mn, std::min(x, y))) mismatch("min(special)", x, y, mn, std::min(x, y));
            if (!vfw::Bits<R>::same(mx, std::max(x, y))) mismatch("max(special)", x, y, mx, std::max(x, y));
            if (!(z < y)) {  // clamp(v, lo, hi) is defined for !(hi < lo)
                VF_PHASE(vf::PH_OPERATION) { cl = clamp(q, p, r).in(U{}); }
                g_st.evals++;
                const R want = (x < y) ? y : ((z < x) ? z : x);  // std::clamp (C++17) as specified
                if (!vfw::Bits<R>::same(cl, want)) mismatch("clamp(special)", x, y, cl, want);
            }
        });
    }
    dump("mmisc", id, desc);
}

}  // namespace vfm15
#endif
