// Plane A harness for C05: conversions that also change the rep, and their <T> checkers.
#ifndef VF_REPCONV_HH
#define VF_REPCONV_HH

#include <algorithm>
#include <cmath>
#include <vector>

#include "au/au.hh"
#include "vf_monitor.hh"

namespace vfr {

using u128 = unsigned __int128;
using i128 = __int128;
using u64 = uint64_t;
typedef long double ld;

inline u128 uabs(i128 v) { return v < 0 ? (u128)(-(v + 1)) + 1 : (u128)v; }

template <typename T>
struct ILim {  // integral limits as i128
    static i128 lo() { return (i128)std::numeric_limits<T>::lowest(); }
    static i128 hi() { return (i128)std::numeric_limits<T>::max(); }
};

inline ld scaled_ratio(ld x, ld f, ld mx) {
    if (x == 0) return 0;
    int kx, kf, km;
    ld xm = std::frexp(std::fabs(x), &kx), fm = std::frexp(f, &kf), mm = std::frexp(mx, &km);
    int k = kx + kf - km;
    if (k > 20000) k = 20000;
    if (k < -20000) k = -20000;
    return std::ldexp(xm * fm / mm, k);
}

template <typename T>
ld ulp_of(ld e) {  // unit in the last place of type T at magnitude |e| (denormal floor)
    e = std::fabs(e);
    if (e == 0) return (ld)std::numeric_limits<T>::denorm_min();
    if (!std::isfinite(e)) return e;
    int ex;
    std::frexp(e, &ex);  // e = m * 2^ex, m in [0.5,1)
    ld u = std::ldexp((ld)1, ex - std::numeric_limits<T>::digits);
    ld dm = (ld)std::numeric_limits<T>::denorm_min();
    return u < dm ? dm : u;
}

struct Stats {
    u64 evals, cleared, lib_t, lib_o, lib_l;
    u64 mm_consistency;    // lossy != trunc || ovf
    u64 mm_value;          // cleared but result not the exact / in-tolerance value
    u64 mm_must_lossy;     // cannot be cast / step out of range, yet reported not lossy
    u64 mm_spurious_ovf;   // integral source: overflow reported, no step leaves its range
    u64 mm_forms;          // the different spellings of the same conversion disagree
    u64 judged_must, judged_spurious, skipped_band;
    struct W { const char *kind; char x[48]; int t, o, l; char got[48]; char want[48]; } wit[24];
    int nwit;
    void clear() { memset(this, 0, sizeof(*this)); }
    W *witness(const char *kind, int t, int o, int l) {
        int same = 0;
        for (int i = 0; i < nwit; ++i) if (!strcmp(wit[i].kind, kind)) ++same;
        if (nwit < 24 && same < 5) { W *w = &wit[nwit++]; memset(w, 0, sizeof(*w)); w->kind = kind; w->t = t; w->o = o; w->l = l; return w; }
        return nullptr;
    }
};
static Stats g_st;

template <typename V, bool F = std::is_floating_point<V>::value>
struct Fmt;
template <typename V>
struct Fmt<V, true> { static void put(char *b, V v) { snprintf(b, 48, "%La", (ld)v); } };
template <typename V>
struct Fmt<V, false> {
    static void put(char *b, V v) {
        i128 x = (i128)v; bool neg = x < 0; u128 u = uabs(x); char t[48]; int n = 0;
        if (!u) t[n++] = '0';
        while (u) { t[n++] = (char)('0' + (int)(u % 10)); u /= 10; }
        int k = 0; if (neg) b[k++] = '-';
        while (n) b[k++] = t[--n];
        b[k] = 0;
    }
};
inline void fmt_i128(char *b, i128 x) { Fmt<i128, false>::put(b, x); }

// ---- value streams -------------------------------------------------------------------------
template <typename S>
VF_NOSAN void ipush(std::vector<S> &v, i128 c, int radius) {
    for (int d = -radius; d <= radius; ++d) {
        i128 y = c + d;
        if (y >= ILim<S>::lo() && y <= ILim<S>::hi()) v.push_back((S)y);
    }
}

// integral source: all values (<=16 bit) or boundary sets for each step + random
template <typename S, typename T>
VF_NOSAN std::vector<S> int_values(u64 N, u64 D, bool t_is_int, i128 tlo, i128 thi, i128 clo, i128 chi, i128 cplo, i128 cphi, u64 nrandom, u64 seed) {
    std::vector<S> v;
    const i128 lo = ILim<S>::lo(), hi = ILim<S>::hi();
    if (sizeof(S) <= 2) {
        for (i128 x = lo; x <= hi; ++x) v.push_back((S)x);
        return v;
    }
    ipush<S>(v, lo, 4); ipush<S>(v, hi, 4); ipush<S>(v, 0, 3);
    // step thresholds: x*N within promoted-common range, x*N/D within common range and within T's range
    const i128 bounds[] = {tlo, thi, clo, chi, cplo, cphi};
    for (int k = 0; k < 6; ++k) {
        i128 b = bounds[k];
        if (!t_is_int && k < 2) continue;
        u128 ab = uabs(b);
        // b*D/N and b/N (as magnitudes, avoiding 128-bit overflow by clamping)
        u128 q1 = (ab <= (~(u128)0) / D) ? (ab * D) / N : (~(u128)0) / N;
        u128 q2 = ab / N;
        const u128 cap = (u128)1 << 70;
        if (q1 > cap) q1 = cap;
        i128 s1 = b < 0 ? -(i128)q1 : (i128)q1, s2 = b < 0 ? -(i128)q2 : (i128)q2;
        ipush<S>(v, s1, 3); ipush<S>(v, s2, 3); ipush<S>(v, b, 2);
        i128 m = (s1 / (i128)D) * (i128)D;
        ipush<S>(v, m, 1); ipush<S>(v, m + (i128)D, 1); ipush<S>(v, m - (i128)D, 1);
    }
    for (int b = 1; b < 64; ++b) { ipush<S>(v, (i128)1 << b, 1); ipush<S>(v, -((i128)1 << b), 1); }
    vf::Rng r(seed);
    const u128 span = (u128)(hi - lo) + 1;
    for (u64 i = 0; i < nrandom; ++i) {
        u64 sel = r.next() & 3;
        i128 y;
        if (sel == 0) y = lo + (i128)((u128)r.next() % span);
        else if (sel == 1) { y = (i128)r.next_loguniform(); if (lo < 0 && (r.next() & 1)) y = -y; }
        else { u128 kmax = (u128)hi / D; i128 k = kmax ? (i128)((u128)r.next_loguniform() % (kmax + 1)) : 0; y = k * (i128)D; if (lo < 0 && (r.next() & 1)) y = -y; }
        if (y < lo || y > hi) continue;
        v.push_back((S)y);
    }
    return v;
}

template <typename S>
void fwalk(std::vector<S> &v, ld c, int steps) {
    if (!std::isfinite(c)) return;
    if (std::fabs(c) > (ld)std::numeric_limits<S>::max()) return;
    S s = (S)c;
    v.push_back(s);
    S up = s, dn = s;
    for (int i = 0; i < steps; ++i) {
        up = std::nextafter(up, std::numeric_limits<S>::infinity());
        dn = std::nextafter(dn, -std::numeric_limits<S>::infinity());
        v.push_back(up); v.push_back(dn);
    }
}

// floating source: neighbourhoods of every target limit divided by the factor, powers of two,
// specials, random bit patterns (random mantissa x random exponent) and random integers.
template <typename S>
std::vector<S> float_values(ld f, bool t_is_int, ld tlo, ld thi, int tdigits, ld tfmax, u64 nrandom, u64 seed) {
    std::vector<S> v;
    const S inf = std::numeric_limits<S>::infinity();
    // (explicit casts: this template is also instantiated, though never called, for integral S, where clang rejects a narrowing
    // braced initialiser such as -max() for an unsigned type)
    const S sp[] = {S(0), S(-S(0)), S(std::numeric_limits<S>::denorm_min()), S(-std::numeric_limits<S>::denorm_min()), S(std::numeric_limits<S>::min()),
                    S(std::numeric_limits<S>::max()), S(-std::numeric_limits<S>::max()), S(inf), S(-inf), S(std::numeric_limits<S>::quiet_NaN()),
                    S(-std::numeric_limits<S>::quiet_NaN()), S(std::numeric_limits<S>::signaling_NaN()), S(1), S(-1), S(0.5), S(-0.5), S(1.5), S(2.5), S(-2.5)};
    for (S s : sp) v.push_back(s);
    if (t_is_int) {
        const ld centers[] = {tlo, tlo - 1, thi, thi + 1, std::ldexp((ld)1, tdigits), std::ldexp((ld)1, tdigits - 1), -std::ldexp((ld)1, tdigits), 0, 1, -1,
                              std::ldexp((ld)1, std::numeric_limits<S>::digits), std::ldexp((ld)1, std::numeric_limits<S>::digits + 1)};
        for (ld c : centers) { fwalk<S>(v, c / f, 8); fwalk<S>(v, c, 2); }
    } else {
        fwalk<S>(v, tfmax / f, 8); fwalk<S>(v, -tfmax / f, 8);
        const ld rel[] = {1e-7L, 3e-6L, 1e-5L, 1e-3L, 0.25L};
        for (ld r : rel) { fwalk<S>(v, tfmax / f * (1 + r), 1); fwalk<S>(v, tfmax / f * (1 - r), 1); fwalk<S>(v, -tfmax / f * (1 + r), 1); }
    }
    int estep = std::numeric_limits<S>::max_exponent > 2000 ? 31 : (std::numeric_limits<S>::max_exponent > 200 ? 3 : 1);
    for (int e = std::numeric_limits<S>::min_exponent - std::numeric_limits<S>::digits; e < std::numeric_limits<S>::max_exponent; e += estep) {
        S p = std::ldexp(S(1), e);
        v.push_back(p); v.push_back(-p); v.push_back(std::nextafter(p, S(0))); v.push_back(std::nextafter(p, inf));
    }
    for (int e = 0; e <= 70; ++e) fwalk<S>(v, std::ldexp((ld)1, e), 2);
    vf::Rng r(seed);
    for (u64 i = 0; i < nrandom; ++i) {
        u64 sel = r.next() & 3;
        S y;
        if (sel == 0) {  // random mantissa, random exponent over the full range
            S m = (S)((ld)(r.next() >> 11) / (ld)(1ull << 53)) + S(0.5);
            int e = std::numeric_limits<S>::min_exponent + (int)(r.next() % (u64)(std::numeric_limits<S>::max_exponent - std::numeric_limits<S>::min_exponent + 1));
            y = std::ldexp(m, e);
        } else if (sel == 1) {  // random integer (log-uniform) so that "no truncation" inputs are common
            y = (S)(ld)r.next_loguniform();
        } else if (sel == 2) {  // random integer divided by the factor, rounded
            y = (S)std::nearbyint((ld)r.next_loguniform() / f);
        } else {  // small exponents around 1 with random mantissa
            S m = (S)((ld)(r.next() >> 11) / (ld)(1ull << 53)) + S(0.5);
            y = std::ldexp(m, (int)(r.next() % 80) - 8);
        }
        if (r.next() & 1) y = -y;
        v.push_back(y);
    }
    return v;
}

// ---- the conversion under test, all spellings ------------------------------------------------
template <typename S, typename T, typename SrcU, typename DstU, bool kIdentityUnit>
struct Forms {
    static void run(au::Quantity<SrcU, S> q, T &a, T &b, T &c, T &d) {
        a = q.template coerce_in<T>(DstU{});
        b = q.template coerce_as<T>(DstU{}).in(DstU{});
        c = q.template as<T>(DstU{}).in(DstU{});
        d = q.template in<T>(DstU{});
    }
};

template <typename V>
inline bool same_val(V a, V b) { return a == b || (a != a && b != b); }

// kInt: S integral.  The generator passes the factor as N/D (rational) and as long double.
template <typename S, typename T, typename SrcU, typename DstU, bool kRational>
__attribute__((noinline)) void run_instance(long id, const char *sname, const char *tname, const char *fname, u64 N, u64 D, ld f, u64 nrandom, u64 seed) {
    using C = std::common_type_t<S, T>;
    constexpr bool s_int = std::is_integral<S>::value, t_int = std::is_integral<T>::value, c_int = std::is_integral<C>::value;
    using CP = decltype(std::declval<C>() * std::declval<C>());
    g_st.clear();
    vf::g_inst = id;
    const ld tfmax = t_int ? 0 : (ld)std::numeric_limits<T>::max();
    const i128 tlo = t_int ? (i128)std::numeric_limits<T>::lowest() : 0, thi = t_int ? (i128)std::numeric_limits<T>::max() : 0;
    const i128 clo = c_int ? (i128)std::numeric_limits<C>::lowest() : 0, chi = c_int ? (i128)std::numeric_limits<C>::max() : 0;
    const i128 cplo = c_int ? (i128)std::numeric_limits<CP>::lowest() : 0, cphi = c_int ? (i128)std::numeric_limits<CP>::max() : 0;
    std::vector<S> vals;
    // (the unused branch is still instantiated, hence the casts through helper templates)
    struct Gen {
        static std::vector<S> make(std::true_type, u64 N, u64 D, ld, bool t_int, i128 tlo, i128 thi, i128 clo, i128 chi, i128 cplo, i128 cphi, ld, u64 nr, u64 seed) {
            return int_values<S, T>(N, D, t_int, tlo, thi, c_int ? clo : ILim<S>::lo(), c_int ? chi : ILim<S>::hi(), c_int ? cplo : ILim<S>::lo(), c_int ? cphi : ILim<S>::hi(), nr, seed);
        }
        static std::vector<S> make(std::false_type, u64, u64, ld f, bool t_int, i128 tlo, i128 thi, i128, i128, i128, i128, ld tfmax, u64 nr, u64 seed) {
            return float_values<S>(f, t_int, (ld)tlo, (ld)thi, std::numeric_limits<T>::digits, tfmax, nr, seed);
        }
    };
    vals = Gen::make(std::integral_constant<bool, s_int>{}, N, D, f, t_int, tlo, thi, clo, chi, cplo, cphi, tfmax, nrandom, seed);
    const S *pv = vals.data();
    const ld band = 1.0L + std::ldexp(1.0L, -20);

    vf::run_loop(0, vals.size(), [&](u64 i) {
        S x = pv[i];
        { uint64_t bits = 0; memcpy(&bits, &x, sizeof(S) < 8 ? sizeof(S) : 8); vf::g_aux0 = bits; }
        auto q = au::make_quantity<SrcU>(vf::launder(x));
        bool t = false, o = false, l = false;
        VF_PHASE(vf::PH_CHECKER) {
            t = au::will_conversion_truncate<T>(q, DstU{});
            o = au::will_conversion_overflow<T>(q, DstU{});
            l = au::is_conversion_lossy<T>(q, DstU{});
        }
        g_st.evals++; g_st.lib_t += t; g_st.lib_o += o; g_st.lib_l += l;
        if (l != (t || o)) { g_st.mm_consistency++; auto *w = g_st.witness("consistency", t, o, l); if (w) Fmt<S>::put(w->x, x); }

        // ---------------- oracle ----------------
        bool in_band = false;
        bool must_lossy = false, judged_must = false;  // property: such inputs are ALWAYS reported lossy
        bool real_step_overflow = false, know_steps = false;
        bool have_exact_int = false; i128 exact_int = 0;
        ld e = 0;  // exact (to long double accuracy) scaled value
        if (s_int) {
            i128 xi = (i128)x;
            if (c_int && kRational) {
                know_steps = true;
                bool s1 = xi < clo || xi > chi;  // cast to Common
                u128 prod = uabs(xi) * (u128)N;
                bool neg = xi < 0;
                u128 pb = neg ? uabs(cplo) : (u128)cphi;
                u128 cb = (neg ? uabs(clo) : (u128)chi) * (u128)D;
                bool s2 = prod > pb || prod > cb;
                u128 qv = prod / (u128)D;
                bool trunc = (prod % (u128)D) != 0;
                i128 res = neg ? -(i128)qv : (i128)qv;
                bool s3 = t_int ? (res < tlo || res > thi) : false;
                // rational comparison for the last step as well: value just above max(T) is out of range
                if (t_int && !s3) { u128 tb = (neg ? uabs(tlo) : (u128)thi) * (u128)D; if (prod > tb) s3 = true; }
                real_step_overflow = s1 || s2 || s3;
                must_lossy = real_step_overflow || trunc; judged_must = true;
                have_exact_int = !must_lossy; exact_int = res;
                e = (ld)res;
            } else {
                // floating common type: integer is cast exactly enough, then scaled in floating point
                e = (ld)x * f;
                if (t_int) {
                    // handled like a floating source below
                }
            }
        } else {
            e = (ld)x * f;
        }
        if (!(s_int && c_int && kRational)) {
            // floating computation; tolerance in units of the common floating type
            ld tol = 2 * ulp_of<C>(e) + 4 * ulp_of<ld>(e) + (s_int ? 2 * ulp_of<C>(e) : 0);
            bool finite_in = s_int || std::isfinite((ld)x);
            if (!finite_in) {
                if (t_int) { must_lossy = true; judged_must = true; }  // NaN / inf cannot be cast to an integer
            } else if (t_int && !std::isfinite(e)) {
                must_lossy = true; judged_must = true;  // finite input, scaled value beyond long double
            } else if (t_int) {
                // surely out of range after scaling (beyond any rounding slack) -> must be lossy
                if (e - tol >= (ld)thi + 1 || e + tol <= (ld)tlo - 1) { must_lossy = true; judged_must = true; }
                else if (e + tol < (ld)thi + 1 && e - tol > (ld)tlo - 1) { judged_must = true; }  // surely castable
                else g_st.skipped_band++;
            } else {
                // |x|*f / max(T), computed on frexp-scaled operands so that it cannot overflow
                // long double itself (the oracle must stay away from the last-ulp behaviour)
                ld ratio = scaled_ratio((ld)x, f, tfmax);
                if (ratio >= band) { must_lossy = true; judged_must = true; }
                else if (ratio <= 1.0L / band) { judged_must = true; }
                else { g_st.skipped_band++; in_band = true; }
            }
        }
        if (judged_must) g_st.judged_must++;
        if (judged_must && must_lossy && !l) {
            g_st.mm_must_lossy++;
            auto *w = g_st.witness("must_be_lossy", t, o, l);
            if (w) { Fmt<S>::put(w->x, x); snprintf(w->want, 48, "%La", e); }
        }
        if (know_steps) {
            g_st.judged_spurious++;
            if (o && !real_step_overflow) { g_st.mm_spurious_ovf++; auto *w = g_st.witness("spurious_overflow", t, o, l); if (w) { Fmt<S>::put(w->x, x); fmt_i128(w->want, exact_int); } }
        }
        if (!l) {
            g_st.cleared++;
            T a = T(), b = T(), c = T(), d = T();
            VF_PHASE(vf::PH_OPERATION) { Forms<S, T, SrcU, DstU, false>::run(q, a, b, c, d); }
            if (!(same_val(a, b) && same_val(a, c) && same_val(a, d))) {
                g_st.mm_forms++; auto *w = g_st.witness("forms_disagree", t, o, l); if (w) { Fmt<S>::put(w->x, x); Fmt<T>::put(w->got, a); Fmt<T>::put(w->want, c); }
            }
            bool ok = true;
            if (have_exact_int) {
                if (t_int) ok = ((i128)a == exact_int);
                else {
                    // integral source and common type, floating target can't occur (common would be floating)
                    ok = ((ld)a == (ld)exact_int);
                }
            } else if (s_int && c_int && kRational) {
                ok = false;  // lib cleared an input whose exact result does not exist (lossy by the oracle)
            } else {
                bool finite_in = s_int || std::isfinite((ld)x);
                if (finite_in) {
                    ld tol = 2 * ulp_of<C>(e) + 4 * ulp_of<ld>(e) + (s_int ? 2 * ulp_of<C>(e) : 0);
                    if (!t_int) tol += ulp_of<T>(e);  // final narrowing cast rounds once more
                    ld diff = std::fabs((ld)a - e);
                    ok = std::isfinite((ld)a) && diff <= tol;
                    if (t_int && judged_must && must_lossy) ok = false;
                    if (!t_int && (in_band || !judged_must)) ok = true;  // too close to max(T): not judged
                } else {
                    // non-finite floating input to floating target: NaN stays NaN, inf stays inf
                    ok = t_int ? false : (((ld)x != (ld)x) ? (a != a) : ((ld)a == (ld)x));
                }
            }
            if (!ok) {
                g_st.mm_value++;
                auto *w = g_st.witness("value", t, o, l);
                if (w) { Fmt<S>::put(w->x, x); Fmt<T>::put(w->got, a); if (have_exact_int) fmt_i128(w->want, exact_int); else snprintf(w->want, 48, "%La", e); }
            }
        }
    });
    printf("{\"ev\":\"inst\",\"id\":%ld,\"S\":\"%s\",\"T\":\"%s\",\"factor\":\"%s\",\"evals\":%llu,\"cleared\":%llu,\"lib\":[%llu,%llu,%llu],"
           "\"judged_must\":%llu,\"judged_spurious\":%llu,\"band\":%llu,\"mm\":{\"consistency\":%llu,\"value\":%llu,\"must_be_lossy\":%llu,\"spurious_overflow\":%llu,\"forms_disagree\":%llu},\"wit\":[",
           id, sname, tname, fname, (unsigned long long)g_st.evals, (unsigned long long)g_st.cleared, (unsigned long long)g_st.lib_t,
           (unsigned long long)g_st.lib_o, (unsigned long long)g_st.lib_l, (unsigned long long)g_st.judged_must, (unsigned long long)g_st.judged_spurious,
           (unsigned long long)g_st.skipped_band, (unsigned long long)g_st.mm_consistency, (unsigned long long)g_st.mm_value,
           (unsigned long long)g_st.mm_must_lossy, (unsigned long long)g_st.mm_spurious_ovf, (unsigned long long)g_st.mm_forms);
    for (int i = 0; i < g_st.nwit; ++i) {
        const Stats::W &w = g_st.wit[i];
        printf("%s{\"kind\":\"%s\",\"x\":\"%s\",\"lib\":[%d,%d,%d],\"got\":\"%s\",\"want\":\"%s\"}", i ? "," : "", w.kind, w.x, w.t, w.o, w.l, w.got, w.want);
    }
    printf("]}\n");
}

}  // namespace vfr
#endif
