// Plane B reifier: turns compile-time results (dimension and magnitude exponent packs, type identity,
// labels, sizes) into run-time JSON events, one per generated expression.
#ifndef VF_REIFY_HH
#define VF_REIFY_HH

#include <cstdio>
#include <cstring>
#include <string>
#include <typeinfo>

#include "au/au.hh"

namespace vfy {

inline void json_str(const char *s, size_t n) {
    fputc('"', stdout);
    for (size_t i = 0; i < n; ++i) {
        unsigned char c = (unsigned char)s[i];
        if (c == '"' || c == '\\') { fputc('\\', stdout); fputc(c, stdout); }
        else if (c < 0x20 || c >= 0x7f) printf("\\u%04x", c);
        else fputc(c, stdout);
    }
    fputc('"', stdout);
}

// ---- dimension pack ---------------------------------------------------------------------------
template <typename BP>
void dim_bp(bool first) {
    using B = au::BaseT<BP>;
    using E = au::ExpT<BP>;
    printf("%s[%lld,%lld,%lld]", first ? "" : ",", (long long)B::base_dim_index, (long long)E::num, (long long)E::den);
}
inline void dim_list(au::Dimension<>) {}
template <typename H, typename... T>
void dim_list(au::Dimension<H, T...>) {
    dim_bp<H>(true);
    int dummy[] = {0, (dim_bp<T>(false), 0)...};
    (void)dummy;
}
template <typename D>
void print_dim() { printf("["); dim_list(D{}); printf("]"); }

// ---- magnitude pack ---------------------------------------------------------------------------
template <typename B>
struct MagBase;
template <std::uintmax_t N>
struct MagBase<au::Prime<N>> { static void put() { printf("\"%llu\"", (unsigned long long)N); } };
template <>
struct MagBase<au::Pi> { static void put() { printf("\"pi\""); } };

template <typename BP>
void mag_bp(bool first) {
    using B = au::BaseT<BP>;
    using E = au::ExpT<BP>;
    printf("%s[", first ? "" : ",");
    MagBase<B>::put();
    printf(",%lld,%lld]", (long long)E::num, (long long)E::den);
}
inline void mag_list(au::Magnitude<>) {}
template <typename H, typename... T>
void mag_list(au::Magnitude<H, T...>) {
    mag_bp<H>(true);
    int dummy[] = {0, (mag_bp<T>(false), 0)...};
    (void)dummy;
}
template <typename M>
void print_mag() { printf("["); mag_list(M{}); printf("]"); }
inline void print_mag_zero() { printf("\"ZERO\""); }

// associated unit of any unit-slot expression (decays const-qualified maker/symbol objects)
template <typename T>
au::AssociatedUnitT<T> assoc(T);

// ---- unit ---------------------------------------------------------------------------------------
template <typename U>
void unit_core() {
    printf("\"tid\":\"%s\",\"dim\":", typeid(U).name());
    print_dim<au::detail::DimT<U>>();
    printf(",\"mag\":");
    print_mag<au::detail::MagT<U>>();
}

template <typename U>
void reify_unit(const char *tag) {
    printf("{\"ev\":\"unit\",\"tag\":\"%s\",", tag);
    unit_core<U>();
    printf("}\n");
}

// label: read every byte the type says it has (ASan/memcheck watch these reads)
template <typename U>
void reify_label(const char *tag) {
    const auto &lab = au::unit_label<U>();
    const size_t sz = sizeof(lab);
    const char *p = static_cast<const char *>(lab);
    size_t len = 0;
    while (len < sz && p[len] != 0) ++len;
    bool nul_inside = len < sz;
    printf("{\"ev\":\"label\",\"tag\":\"%s\",\"tid\":\"%s\",\"sizeof\":%zu,\"strlen\":%zu,\"nul\":%d,\"label\":", tag, typeid(U).name(), sz, len, nul_inside ? 1 : 0);
    json_str(p, len);
    printf(",\"via_unit_label_fn\":");
    {
        const char *q = au::unit_label(U{});
        json_str(q, strlen(q));
    }
    printf("}\n");
}

template <typename A, typename B>
void reify_relation(const char *tag) {
    printf("{\"ev\":\"rel\",\"tag\":\"%s\",\"same_dim\":%d,\"qty_equiv\":%d,\"same_type\":%d", tag, (int)au::HasSameDimension<A, B>::value,
           (int)au::AreUnitsQuantityEquivalent<A, B>::value, (int)std::is_same<A, B>::value);
    printf("}\n");
}

// unit_ratio is only defined for same-dimension pairs; the generator asks for it only then.
template <typename A, typename B>
void reify_ratio(const char *tag) {
    printf("{\"ev\":\"ratio\",\"tag\":\"%s\",\"mag\":", tag);
    print_mag<au::UnitRatioT<A, B>>();
    printf(",\"fn_equiv\":%d,\"fn_same_dim\":%d}\n", (int)au::are_units_quantity_equivalent(A{}, B{}), (int)au::has_same_dimension(A{}, B{}));
}

// ---- magnitudes (C11 / C16) ---------------------------------------------------------------------
inline void print_i128(__int128 v) {
    if (v == 0) { fputs("0", stdout); return; }
    char buf[48]; int n = 0; bool neg = v < 0;
    unsigned __int128 u = neg ? (unsigned __int128)(-(v + 1)) + 1 : (unsigned __int128)v;
    while (u) { buf[n++] = (char)('0' + (int)(u % 10)); u /= 10; }
    if (neg) fputc('-', stdout);
    while (n) fputc(buf[--n], stdout);
}
template <typename T, bool F = std::is_floating_point<T>::value>
struct PutVal { static void put(T v) { fputc('"', stdout); print_i128((__int128)v); fputc('"', stdout); } };
template <typename T>
struct PutVal<T, true> { static void put(T v) { printf("\"%La\"", (long double)v); } };

template <typename T, typename M, bool Ok>
struct GetVal { static void put() { printf("null"); } };
template <typename T, typename M>
struct GetVal<T, M, true> {
    static void put() {
        constexpr T v = au::get_value<T>(M{});   // compile-time value
        const T rt = au::get_value<T>(M{});      // same call at run time
        PutVal<T>::put(v);
        if (!(v == rt)) printf(",\"rt_differs\":1");
    }
};
template <typename T, typename M>
void mag_type(const char *tname, bool first) {
    constexpr bool rep = au::representable_in<T>(M{});
    printf("%s\"%s\":{\"rep\":%d,\"val\":", first ? "" : ",", tname, (int)rep);
    GetVal<T, M, rep>::put();
    printf("}");
}
template <typename M>
void reify_mag(const char *tag) {
    printf("{\"ev\":\"mag\",\"tag\":\"%s\",\"tid\":\"%s\",\"mag\":", tag, typeid(M).name());
    print_mag<M>();
    printf(",\"is_integer\":%d,\"is_rational\":%d,\"num\":", (int)au::is_integer(M{}), (int)au::is_rational(M{}));
    print_mag<decltype(au::numerator(M{}))>();
    printf(",\"den\":");
    print_mag<decltype(au::denominator(M{}))>();
    printf(",\"intpart\":");
    print_mag<decltype(au::integer_part(M{}))>();
    printf(",\"types\":{");
    mag_type<int8_t, M>("int8_t", true); mag_type<uint8_t, M>("uint8_t", false); mag_type<int16_t, M>("int16_t", false); mag_type<uint16_t, M>("uint16_t", false);
    mag_type<int32_t, M>("int32_t", false); mag_type<uint32_t, M>("uint32_t", false); mag_type<int64_t, M>("int64_t", false); mag_type<uint64_t, M>("uint64_t", false);
    mag_type<float, M>("float", false); mag_type<double, M>("double", false); mag_type<long double, M>("long double", false);
    printf("}}\n");
}
template <typename A, typename B>
void reify_mag_eq(const char *tag) {
    printf("{\"ev\":\"mageq\",\"tag\":\"%s\",\"same_type\":%d,\"op_eq\":%d,\"op_ne\":%d}\n", tag, (int)std::is_same<A, B>::value, (int)(A{} == B{}), (int)(A{} != B{}));
}

// ---- constants (C16) -----------------------------------------------------------------------------
template <typename T, typename C, typename U, bool Ok>
struct ConstVals { static void put() { printf("null"); } };
template <typename T, typename C, typename U>
struct ConstVals<T, C, U, true> {
    static void put() {
        constexpr C c{};
        const T a = c.template as<T>(U{}).in(U{});
        const T b = c.template in<T>(U{});
        const au::Quantity<U, T> q = c;  // implicit conversion
        const T d = q.in(U{});
        printf("[");
        PutVal<T>::put(a); printf(","); PutVal<T>::put(b); printf(","); PutVal<T>::put(d);
        printf("]");
    }
};
template <typename T, typename C, typename U>
void const_type(const char *tname, bool first) {
    constexpr bool can = C::template can_store_value_in<T>(U{});
    printf("%s\"%s\":{\"can\":%d,\"vals\":", first ? "" : ",", tname, (int)can);
    ConstVals<T, C, U, can>::put();
    printf("}");
}
template <typename C, typename U>
void reify_const(const char *tag) {
    using CU = au::AssociatedUnitT<C>;
    printf("{\"ev\":\"const\",\"tag\":\"%s\",\"ratio\":", tag);
    print_mag<au::UnitRatioT<CU, U>>();
    printf(",\"types\":{");
    const_type<int8_t, C, U>("int8_t", true); const_type<uint8_t, C, U>("uint8_t", false); const_type<int16_t, C, U>("int16_t", false); const_type<uint16_t, C, U>("uint16_t", false);
    const_type<int32_t, C, U>("int32_t", false); const_type<uint32_t, C, U>("uint32_t", false); const_type<int64_t, C, U>("int64_t", false); const_type<uint64_t, C, U>("uint64_t", false);
    const_type<float, C, U>("float", false); const_type<double, C, U>("double", false); const_type<long double, C, U>("long double", false);
    printf("}}\n");
}

// composition: the stored number must not change, only the unit.  `got` is the resulting quantity.
template <typename Q, typename T>
void reify_composed(const char *tag, Q got, T want_value) {
    using U = typename Q::Unit;
    printf("{\"ev\":\"comp\",\"tag\":\"%s\",", tag);
    unit_core<U>();
    // "never the stored number": the bits, not just the value (signed zeros, NaN payloads)
    auto got_value = got.in(U{});
    const bool same_rep = std::is_same<typename Q::Rep, T>::value;
    const bool bits_ok = same_rep && sizeof(got_value) == sizeof(want_value) && memcmp(&got_value, &want_value, sizeof(T) > 10 ? 10 : sizeof(T)) == 0;
    printf(",\"same_rep\":%d,\"value_ok\":%d}\n", (int)same_rep, (int)bits_ok);
}
template <typename W>
void reify_wrapped_unit(const char *tag, W) {
    printf("{\"ev\":\"comp\",\"tag\":\"%s\",", tag);
    unit_core<au::AssociatedUnitT<W>>();
    printf(",\"same_rep\":1,\"value_ok\":1}\n");
}

// ---- point units (C10) --------------------------------------------------------------------------
template <typename Ui, typename Common>
void reify_point_map(const char *tag) {
    const long long y0 = au::make_quantity_point<Ui>(0LL).template coerce_in<long long>(Common{});
    const long long y1 = au::make_quantity_point<Ui>(1LL).template coerce_in<long long>(Common{});
    const long long y7 = au::make_quantity_point<Ui>(7LL).template coerce_in<long long>(Common{});
    printf("{\"ev\":\"pmap\",\"tag\":\"%s\",\"y0\":%lld,\"y1\":%lld,\"y7\":%lld,\"in_tid\":\"%s\",\"point_equiv\":%d}\n", tag, y0, y1, y7, typeid(Ui).name(),
           (int)au::AreUnitsPointEquivalent<Ui, Common>::value);
}

}  // namespace vfy

#endif
