// Plane A harness for C12: primality, factor finding and modular helpers vs independent oracles.
//   vf_numth sieve   <lo> <hi>            is_prime(n) for n in [lo,hi) against a segmented sieve;
//                                          find_prime_factor(n) for the same n when hi <= fpf_limit (argv[4])
//   vf_numth adv     <shard> <nshards> <tier>   adversarial 64-bit sets (oracle-generated)
//   vf_numth multi   <shard> <nshards> <count> <seed>   products of 3-6 primes above the trial-division table
//   vf_numth falsesq <shard> <nshards> <log2rho>  "false square" candidates (2-adic lifting)
//   vf_numth mod     <count> <seed>       modular helpers on random/boundary operands
#include <algorithm>
#include <cinttypes>
#include <cmath>
#include <string>
#include <vector>

#include "au/utility/factoring.hh"
#include "au/utility/mod.hh"
#include "au/utility/probable_primes.hh"
#include "vf_monitor.hh"

typedef unsigned __int128 u128;
typedef uint64_t u64;

// ---------------- independent oracle ----------------
VF_NOSAN static u64 o_mulmod(u64 a, u64 b, u64 n) { return (u64)(((u128)a * b) % n); }
VF_NOSAN static u64 o_powmod(u64 b, u64 e, u64 n) {
    u64 r = 1 % n;
    b %= n;
    while (e) { if (e & 1) r = o_mulmod(r, b, n); b = o_mulmod(b, b, n); e >>= 1; }
    return r;
}
VF_NOSAN static bool o_sprp(u64 n, u64 a) {
    if (a % n == 0) return true;
    u64 d = n - 1; int s = 0;
    while ((d & 1) == 0) { d >>= 1; ++s; }
    u64 x = o_powmod(a, d, n);
    if (x == 1 || x == n - 1) return true;
    for (int i = 1; i < s; ++i) { x = o_mulmod(x, x, n); if (x == n - 1) return true; }
    return false;
}
VF_NOSAN static bool o_is_prime(u64 n) {
    if (n < 2) return false;
    static const u64 small[] = {2, 3, 5, 7, 11, 13, 17, 19, 23, 29, 31, 37};
    for (u64 p : small) { if (n % p == 0) return n == p; }
    for (u64 a : small) if (!o_sprp(n, a)) return false;  // deterministic for n < 3.3e24
    return true;
}
VF_NOSAN static u64 o_isqrt(u64 n) {
    u64 r = (u64)std::sqrt((long double)n);
    while ((u128)r * r > n) --r;
    while ((u128)(r + 1) * (r + 1) <= n) ++r;
    return r;
}
VF_NOSAN static bool o_is_square(u64 n) { u64 r = o_isqrt(n); return (u128)r * r == n; }

// ---------------- reporting ----------------
struct Stat {
    u64 evals, primes, composites, mm_prime, mm_factor, mm_mod, mm_square, false_square_hits;
    struct W { const char *kind; u64 a, b, c, got, want; } wit[32];
    int nwit;
    void w(const char *k, u64 a, u64 b, u64 c, u64 got, u64 want) { if (nwit < 32) wit[nwit++] = W{k, a, b, c, got, want}; }
};
static Stat S;
static void dump(const char *task) {
    printf("{\"ev\":\"numth\",\"task\":\"%s\",\"evals\":%" PRIu64 ",\"primes\":%" PRIu64 ",\"composites\":%" PRIu64
           ",\"mm\":{\"prime\":%" PRIu64 ",\"factor\":%" PRIu64 ",\"mod\":%" PRIu64 ",\"square\":%" PRIu64 "},\"false_square_candidates_hit\":%" PRIu64 ",\"wit\":[",
           task, S.evals, S.primes, S.composites, S.mm_prime, S.mm_factor, S.mm_mod, S.mm_square, S.false_square_hits);
    for (int i = 0; i < S.nwit; ++i)
        printf("%s{\"kind\":\"%s\",\"a\":\"%" PRIu64 "\",\"b\":\"%" PRIu64 "\",\"c\":\"%" PRIu64 "\",\"got\":\"%" PRIu64 "\",\"want\":\"%" PRIu64 "\"}", i ? "," : "",
               S.wit[i].kind, S.wit[i].a, S.wit[i].b, S.wit[i].c, S.wit[i].got, S.wit[i].want);
    printf("]}\n");
    vf::print_traps_json();
    vf::print_diag_json();
    printf("{\"ev\":\"done\"}\n");
}

static void check_prime(u64 n, bool want) {
    bool got = false;
    vf::g_aux0 = n;
    VF_PHASE(vf::PH_OPERATION) { got = au::detail::is_prime(vf::launder(n)); }
    S.evals++;
    (want ? S.primes : S.composites)++;
    if (got != want) { S.mm_prime++; S.w("is_prime", n, 0, 0, got, want); }
}
static void check_factor(u64 n) {
    if (n < 2) return;
    u64 p = 0;
    vf::g_aux0 = n;
    VF_PHASE(vf::PH_OPERATION) { p = au::detail::find_prime_factor(vf::launder(n)); }
    S.evals++;
    bool ok = p > 1 && (n % p == 0) && o_is_prime(p);
    if (!ok) { S.mm_factor++; S.w("find_prime_factor", n, 0, 0, p, 0); }
}
static void check_square(u64 n) {
    bool got = false;
    vf::g_aux0 = n;
    VF_PHASE(vf::PH_OPERATION) { got = au::detail::is_perfect_square(vf::launder(n)); }
    bool want = o_is_square(n);
    S.evals++;
    if (got != want) { S.mm_square++; S.w("is_perfect_square", n, 0, 0, got, want); }
}

// ---------------- tasks ----------------
static int task_sieve(u64 lo, u64 hi, u64 fpf_limit) {
    // segmented sieve of [lo,hi)
    u64 r = o_isqrt(hi) + 1;
    std::vector<char> small(r + 1, 1);
    std::vector<u64> ps;
    for (u64 i = 2; i <= r; ++i) if (small[i]) { ps.push_back(i); for (u64 j = i * i; j <= r; j += i) small[j] = 0; }
    std::vector<char> seg(hi - lo, 1);
    for (u64 p : ps) {
        u64 st = std::max(p * p, (lo + p - 1) / p * p);
        for (u64 j = st; j < hi; j += p) seg[j - lo] = 0;
    }
    for (u64 n = lo; n < hi && n < 2; ++n) seg[n - lo] = 0;
    static const char *segp;
    segp = seg.data();
    static u64 s_lo, s_fpf;
    s_lo = lo; s_fpf = fpf_limit;
    vf::run_loop(lo, hi, [&](u64 n) {
        check_prime(n, segp[n - s_lo] != 0);
        if (n < s_fpf) check_factor(n);
    });
    dump("sieve");
    return 0;
}

VF_NOSAN static void gen_adversarial(std::vector<u64> &out, int tier, u64 seed) {
    auto fits = [](u128 v) { return v < ((u128)1 << 64); };
    // neighbours of every power of two, and of the top of the range
    for (int k = 2; k <= 64; ++k) {
        u128 c = (u128)1 << k;
        int rad = tier ? 400 : 120;
        for (int d = -rad; d <= rad; ++d) { u128 v = c + d; if (d < 0) v = c - (u128)(-d); if (v >= 2 && fits(v)) out.push_back((u64)v); }
    }
    // k * 2^j +- 1 for small odd k: n - 1 or n + 1 has exactly j trailing zero bits (the decompositions n - 1 = 2^s d of
    // Miller-Rabin and n + 1 = 2^s d of the strong Lucas test, for every s)
    for (int j = 3; j <= 63; ++j) {
        for (u64 k = 1; k < (tier ? 600u : 200u); k += 2) {
            u128 c = (u128)k << j;
            if (!fits(c + 1)) break;
            out.push_back((u64)(c + 1)); out.push_back((u64)(c - 1));
        }
    }
    // primes next to 2^16, 2^31, 2^32, 2^21 (both sides) and their products, squares, cubes
    std::vector<u64> near;
    const u64 anchors[] = {1ull << 16, 1ull << 31, 1ull << 32, 1ull << 21, 1ull << 20, (1ull << 32) + (1ull << 31), 3037000499ull, 2642245ull /* ~cbrt(2^64) */, 65521};
    for (u64 a : anchors) {
        int found = 0;
        for (u64 v = a; found < 6; ++v) if (o_is_prime(v)) { near.push_back(v); ++found; }
        found = 0;
        for (u64 v = a - 1; found < 6 && v > 2; --v) if (o_is_prime(v)) { near.push_back(v); ++found; }
    }
    for (u64 p : near) {
        out.push_back(p);
        if (fits((u128)p * p)) out.push_back(p * p);
        if (fits((u128)p * p * p)) out.push_back(p * p * p);
        for (u64 q : near) if (fits((u128)p * q)) out.push_back(p * q);
    }
    // semiprime families p(2p-1), p(3p-2), (k+1)(2k+1) [classic strong-pseudoprime shapes], kept whether or
    // not they fool base 2; those that do fool the oracle's own sprp(2) are counted separately.
    vf::Rng r(seed);
    int want = tier ? 60000 : 6000;
    for (int i = 0; i < want * 40 && (int)out.size() < 200000 + want; ++i) {
        u64 p = (r.next() % ((1ull << 31) - 3)) | 1;
        if (p < 3 || !o_is_prime(p)) continue;
        u64 q2 = 2 * p - 1, q3 = 3 * p - 2;
        if (o_is_prime(q2) && fits((u128)p * q2)) out.push_back(p * q2);
        if (o_is_prime(q3) && fits((u128)p * q3)) out.push_back(p * q3);
    }
    // Chernick Carmichael numbers (6k+1)(12k+1)(18k+1)
    for (u64 k = 1; k < (tier ? 3000000ull : 400000ull); ++k) {
        u64 a = 6 * k + 1, b = 12 * k + 1, c = 18 * k + 1;
        u128 n = (u128)a * b * c;
        if (!fits(n)) break;
        if (o_is_prime(a) && o_is_prime(b) && o_is_prime(c)) out.push_back((u64)n);
    }
    // perfect squares of composites and their neighbours (the Lucas half must reject squares)
    for (int i = 0; i < (tier ? 20000 : 4000); ++i) {
        u64 c = r.next_loguniform() >> 32;
        if (c < 2) continue;
        out.push_back(c * c); out.push_back(c * c + 2); out.push_back(c * c - 2);
    }
    // known hard inputs
    const u64 known[] = {10785637507345693793ull, 18446744073709551557ull, 18446744073709551615ull, 18446744073709551614ull, 3215031751ull, 341550071728321ull,
                         3825123056546413051ull, 2047ull, 1373653ull, 25326001ull, 4759123141ull, 1122004669633ull, 2152302898747ull,
                         3474749660383ull, 5459ull, 5777ull, 10877ull, 16109ull, 18971ull, 22499ull, 24569ull, 25199ull, 40309ull, 58519ull, 75077ull, 97439ull,
                         9223372036854775783ull, 9223372036854775837ull, 4611686018427387847ull, 2305843009213693951ull};
    for (u64 v : known) if (v >= 2) out.push_back(v);
    // random 64-bit odds and random products of two 32-bit primes
    for (int i = 0; i < (tier ? 400000 : 40000); ++i) out.push_back(r.next() | 1);
    for (int i = 0; i < (tier ? 40000 : 4000);) {
        u64 p = (r.next() >> 32) | 1, q = (r.next() >> 32) | 1;
        if (o_is_prime(p) && o_is_prime(q)) { out.push_back(p * q); ++i; }
    }
}

static int task_adv(u64 shard, u64 nshards, int tier, u64 seed) {
    static std::vector<u64> all;
    gen_adversarial(all, tier, seed);
    std::sort(all.begin(), all.end());
    all.erase(std::unique(all.begin(), all.end()), all.end());
    static std::vector<u64> mine;
    for (size_t i = shard; i < all.size(); i += nshards) mine.push_back(all[i]);
    static const u64 *pm;
    pm = mine.data();
    static u64 sprp2_fools = 0;
    vf::run_loop(0, mine.size(), [&](u64 i) {
        u64 n = pm[i];
        bool want = o_is_prime(n);
        if (!want && (n & 1) && o_sprp(n, 2)) sprp2_fools++;
        check_prime(n, want);
        check_square(n);
    });
    // factor finding on the same numbers (second loop so that a hang/trap is attributed separately)
    vf::run_loop(0, mine.size(), [&](u64 i) { check_factor(pm[i]); });
    printf("{\"ev\":\"advinfo\",\"total_set\":%zu,\"mine\":%zu,\"base2_strong_pseudoprimes_in_shard\":%" PRIu64 "}\n", all.size(), mine.size(), sprp2_fools);
    dump("adv");
    return 0;
}

// Products of three to six primes that are all beyond the library's trial-division table (the first 100 primes, <= 541), repeated
// primes included: whatever the factor finder splits off such a number is again composite unless it keeps going.
static int task_multi(u64 shard, u64 nshards, u64 count, u64 seed) {
    std::vector<u64> ps;
    {
        const u64 top = 1u << 16;
        std::vector<char> sv(top, 1);
        for (u64 i = 2; i < top; ++i) if (sv[i]) { if (i > 541) ps.push_back(i); for (u64 j = i * i; j < top; j += i) sv[j] = 0; }
    }
    static std::vector<u64> mine;
    vf::Rng r(seed * 1000003 + shard);
    (void)nshards;
    while (mine.size() < count) {
        int k = 3 + (int)(r.next() % 4);
        // primes below 2^(64/k), from a window that is narrow half of the time (many products of primes of one size)
        u64 lim = (k == 3) ? (1u << 16) : (k == 4 ? (1u << 16) : (k == 5 ? 7100 : 1620));
        size_t hi = std::upper_bound(ps.begin(), ps.end(), lim) - ps.begin();
        if ((r.next() & 1) && hi > 120) hi = 120 + r.next() % (hi - 120);
        u128 n = 1;
        u64 last = 0;
        for (int i = 0; i < k; ++i) {
            u64 p = (last && r.next() % 8 == 0) ? last : ps[r.next() % hi];
            n *= p; last = p;
        }
        if (n >> 64) continue;
        mine.push_back((u64)n);
    }
    static const u64 *pm;
    pm = mine.data();
    vf::run_loop(0, mine.size(), [&](u64 i) { check_prime(pm[i], false); });
    vf::run_loop(0, mine.size(), [&](u64 i) { check_factor(pm[i]); });
    dump("multi");
    return 0;
}

// 2-adic square root: s with s*s == u (mod 2^k), u == 1 (mod 8), 3 <= k <= 64
VF_NOSAN static u64 sqrt2adic(u64 u, int k) {
    u64 s = 1;
    for (int i = 3; i < k; ++i) {
        u64 mask = (i + 1 >= 64) ? ~0ull : ((1ull << (i + 1)) - 1);
        if (((s * s - u) & mask) != 0) s += 1ull << (i - 1);
    }
    return s;
}

// Candidates aimed at a perfect-square pre-test that multiplies in 64 bits: numbers n = c*c mod 2^64
// where (c - 2^j)^2 == 2^(2j) + rho (mod 2^64) for small |rho| (see DESIGN.md C12).
VF_NOSAN static int task_falsesq(u64 shard, u64 nshards, int log2rho) {
    static std::vector<u64> cand;
    const int64_t R = (int64_t)1 << log2rho;
    u64 idx = 0;
    for (int j = 1; j <= 40; ++j) {
        for (int64_t rho = -R; rho <= R; ++rho) {
            if ((idx++ % nshards) != shard) continue;
            u64 A = (j * 2 >= 64 ? 0 : (1ull << (2 * j))) + (u64)rho;
            if (A == 0) continue;
            int tz = __builtin_ctzll(A);
            if (tz & 1) continue;
            int t = tz / 2;
            u64 u = A >> tz;
            if ((u & 7) != 1) continue;
            int k = 64 - tz;
            if (k < 3) continue;
            u64 s = sqrt2adic(u, k);
            u64 half = (k >= 64) ? 0 : (1ull << (k - 1));
            u64 modk = (k >= 64) ? 0 : (1ull << k);
            const u64 roots[4] = {s, (u64)(0 - s), s + half, (u64)(0 - s) + half};
            for (u64 rt : roots) {
                u64 base = (modk ? (rt & (modk - 1)) : rt);
                // free high part: a few multiples of 2^k
                for (u64 m = 0; m < 4; ++m) {
                    u64 sp = base + (modk ? m * modk : 0);
                    u64 d = sp << t;
                    u64 c = d + (1ull << j);
                    cand.push_back(c * c);
                    if (!modk) break;
                }
            }
        }
    }
    static const u64 *pc;
    pc = cand.data();
    vf::run_loop(0, cand.size(), [&](u64 i) {
        u64 n = pc[i];
        bool got = false;
        vf::g_aux0 = n;
        VF_PHASE(vf::PH_OPERATION) { got = au::detail::is_perfect_square(vf::launder(n)); }
        bool want = o_is_square(n);
        S.evals++;
        if (got != want) {
            S.mm_square++; S.false_square_hits++;
            S.w("is_perfect_square", n, 0, 0, got, want);
            // the consequence the property cares about: is the primality answer still right?
            if (n >= 2) check_prime(n, o_is_prime(n));
        }
    });
    dump("falsesq");
    return 0;
}

static int task_mod(u64 count, u64 seed) {
    using namespace au::detail;
    static vf::Rng r(seed);
    static u64 deep = 0, fast = 0;
    vf::run_loop(0, count, [&](u64 i) {
        u64 n, a, b;
        u64 sel = r.next() % 12;
        if (sel == 0) n = 18446744073709551557ull;
        else if (sel == 1) n = (1ull << 63) + (r.next() >> 2) + 1;
        else if (sel == 2) n = ~0ull - (r.next() % 1000);
        else if (sel == 3) n = (r.next() >> 32) + 2;
        else if (sel == 4) n = (1ull << 32) + (r.next() % 5) - 2;
        else n = r.next_loguniform() + 2;
        if (n < 2) n = 2;
        u64 s2 = r.next() % 8;
        if (s2 == 0) { a = n - 1; b = n - 1; }
        else if (s2 == 1) { a = n - 1 - (r.next() % 3 % n); b = r.next() % n; }
        else if (s2 == 2) { a = r.next() % n; b = (~0ull / (a ? a : 1)) % n; if (r.next() & 1) b = (b + 1) % n; }  // a*b next to 2^64
        else if (s2 == 3) { a = (n / 2 + r.next() % 5) % n; b = (n / 2 + r.next() % 5) % n; }
        else if (s2 == 4) { a = (n - n / 3) % n; b = (n - n / 5) % n; }  // forces several recursion levels
        else { a = r.next() % n; b = r.next() % n; }
        vf::g_aux0 = a; vf::g_aux1 = b; vf::g_inst = (long)(n >> 1);
        u64 ga = 0, gs = 0, gm = 0, gh = 0, gp = 0;
        u64 e = r.next_loguniform();
        u64 nodd = n | 1; u64 ah = a % nodd;
        VF_PHASE(vf::PH_OPERATION) {
            ga = add_mod(vf::launder(a), b, n);
            gs = sub_mod(vf::launder(a), b, n);
            gm = mul_mod(vf::launder(a), b, n);
            gh = half_mod_odd(vf::launder(ah), nodd);
            gp = pow_mod(vf::launder(a), e, n);
        }
        S.evals += 5;
        if ((u128)a * b >= ((u128)1 << 64)) deep++; else fast++;
        u64 wa = (u64)(((u128)a + b) % n), ws = (u64)(((u128)a + n - b) % n), wm = o_mulmod(a, b, n), wp = o_powmod(a, e, n);
        // half: the x < nodd with 2x == ah (mod nodd)
        u64 wh = (ah % 2 == 0) ? ah / 2 : (u64)(((u128)ah + nodd) / 2);
        if (ga != wa) { S.mm_mod++; S.w("add_mod", a, b, n, ga, wa); }
        if (gs != ws) { S.mm_mod++; S.w("sub_mod", a, b, n, gs, ws); }
        if (gm != wm) { S.mm_mod++; S.w("mul_mod", a, b, n, gm, wm); }
        if (gh != wh) { S.mm_mod++; S.w("half_mod_odd", ah, 0, nodd, gh, wh); }
        if (gp != wp) { S.mm_mod++; S.w("pow_mod", a, e, n, gp, wp); }
    });
    printf("{\"ev\":\"modinfo\",\"mul_fast_path\":%" PRIu64 ",\"mul_recursive_path\":%" PRIu64 "}\n", fast, deep);
    dump("mod");
    return 0;
}

int main(int argc, char **argv) {
    if (argc < 2) return 2;
    vf::install_handlers();
    vf::install_watchdog(20);
    memset(&S, 0, sizeof(S));
    // oracle self-test (exit 4 = harness bug)
    if (!o_is_prime(2305843009213693951ull) || o_is_prime(3215031751ull) || !o_is_prime(10785637507345693793ull) || o_is_square(10785637507345693793ull) ||
        !o_is_square(4611686014132420609ull) || o_mulmod(~0ull - 1, ~0ull - 2, ~0ull) != 2)
        return 4;
    std::string t = argv[1];
    auto U = [&](int i) { return argc > i ? strtoull(argv[i], 0, 10) : 0ull; };
    if (t == "sieve") return task_sieve(U(2), U(3), U(4));
    if (t == "adv") return task_adv(U(2), U(3), (int)U(4), U(5));
    if (t == "falsesq") return task_falsesq(U(2), U(3), (int)U(4));
    if (t == "mod") return task_mod(U(2), U(3));
    if (t == "multi") return task_multi(U(2), U(3), U(4), U(5));
    return 2;
}
