// Run-time monitor shared by all value-plane (Plane A) harnesses.  One translation unit per
// harness; everything here has internal linkage.
//
// Attribution flavour (default): sanitizer checks are compiled as traps (ud2).  The SIGILL /
// SIGTRAP / SIGFPE handler records (instance, case, phase) and siglongjmp()s back to the value
// loop, which resumes at the next case, so *every* occurrence is attributed to its input.
// Diagnostic flavour (-DVF_DIAG=1): -fsanitize-recover=all plus the __ubsan_on_report hook, which
// yields kind/file/line of the first occurrence per source location.
#ifndef VF_MONITOR_HH
#define VF_MONITOR_HH

#include <csetjmp>
#include <csignal>
#include <cstdint>
#include <cstdio>
#include <cstdlib>
#include <cstring>
#include <limits>
#include <type_traits>
#include <sys/time.h>
#include <unistd.h>

#if defined(__clang__)
#define VF_NOSAN __attribute__((no_sanitize("undefined", "unsigned-integer-overflow", "implicit-conversion")))
#else
#define VF_NOSAN __attribute__((no_sanitize_undefined))
#endif

namespace vf {

enum Phase : int { PH_ORACLE = 0, PH_CHECKER = 1, PH_OPERATION = 2, PH_IO = 3 };
static const char *const kPhaseName[] = {"ORACLE", "CHECKER", "OPERATION", "IO"};

static volatile int g_phase = PH_ORACLE;
static volatile uint64_t g_case = 0;
static volatile long g_inst = -1;
static volatile uint64_t g_aux0 = 0, g_aux1 = 0;  // harness-defined witness payload (e.g. operands)
static volatile int g_armed = 0;
static volatile int g_trapped = 0;
static volatile int g_trap_sig = 0;
static sigjmp_buf g_jb;

struct TrapRec {
    long inst;
    uint64_t cas;
    int phase;
    int sig;
    uint64_t aux0, aux1;
};
static const int kMaxTrapRecs = 4096;
static TrapRec g_traps[kMaxTrapRecs];
static volatile uint64_t g_trap_total = 0;
static volatile uint64_t g_trap_by_phase[4] = {0, 0, 0, 0};

template <typename T>
inline T launder(T x) {
    volatile T v = x;
    return v;
}

// Keep a value alive without letting the optimiser delete the computation.
template <typename T>
inline void sink(const T &x) {
    volatile T v = x;
    (void)v;
}

struct PhaseScope {
    int prev;
    explicit PhaseScope(int p) : prev(g_phase) { g_phase = p; }
    ~PhaseScope() { g_phase = prev; }
};
#define VF_PHASE(p) for (int vf_once_ = ((::vf::g_phase = (p)), 1); vf_once_; vf_once_ = 0, ::vf::g_phase = ::vf::PH_ORACLE)

static void trap_handler(int sig) {
    if (!g_armed) {
        // A trap outside any monitored loop is a harness bug: exit code 3 -> "inconclusive".
        const char msg[] = "VF_FATAL trap outside monitored region\n";
        ssize_t r = write(2, msg, sizeof(msg) - 1);
        (void)r;
        _exit(3);
    }
    g_trapped = 1;
    g_trap_sig = sig;
    siglongjmp(g_jb, 1);
}

// Bounded-progress watchdog in *CPU* time (ITIMER_VIRTUAL, so machine load does not matter): a
// 1 s tick; when the same case has been inside a library phase for g_hang_limit consecutive ticks
// the call is abandoned like a trap, with sig = SIGVTALRM ("does not return").
static volatile uint64_t g_tick_case = ~0ull;
static volatile long g_tick_inst = -2;
static volatile int g_tick_same = 0;
static volatile int g_hang_limit = 20;
// after this many abandoned calls in one process the remaining cases of the current loop are skipped: a change that makes a
// library function diverge on a whole class of inputs must end the run with its witnesses, not stall it for hours
static volatile int g_hang_count = 0;
static volatile int g_hang_budget = 6;
static volatile int g_loops_cut_short = 0;
static void tick_handler(int sig) {
    if (!g_armed || g_phase == PH_ORACLE) { g_tick_same = 0; return; }
    if (g_case == g_tick_case && g_inst == g_tick_inst) {
        if (++g_tick_same >= g_hang_limit) {
            g_tick_same = 0;
            g_trapped = 1;
            g_trap_sig = sig;
            siglongjmp(g_jb, 1);
        }
    } else {
        g_tick_case = g_case;
        g_tick_inst = g_inst;
        g_tick_same = 0;
    }
}

inline void install_watchdog(int cpu_seconds) {
    g_hang_limit = cpu_seconds;
    struct sigaction sa;
    memset(&sa, 0, sizeof(sa));
    sa.sa_handler = tick_handler;
    sa.sa_flags = SA_NODEFER | SA_RESTART;
    sigemptyset(&sa.sa_mask);
    sigaction(SIGVTALRM, &sa, nullptr);
    struct itimerval it;
    it.it_interval.tv_sec = 1; it.it_interval.tv_usec = 0;
    it.it_value = it.it_interval;
    setitimer(ITIMER_VIRTUAL, &it, nullptr);
}

inline void install_handlers() {
    struct sigaction sa;
    memset(&sa, 0, sizeof(sa));
    sa.sa_handler = trap_handler;
    sa.sa_flags = SA_NODEFER;
    sigemptyset(&sa.sa_mask);
    sigaction(SIGILL, &sa, nullptr);
    sigaction(SIGTRAP, &sa, nullptr);
    sigaction(SIGFPE, &sa, nullptr);
}

// Called (from the loop macro) after a trap long-jumped back.
inline void note_trap() {
    uint64_t n = g_trap_total;
    if (n < (uint64_t)kMaxTrapRecs) {
        g_traps[n].inst = g_inst;
        g_traps[n].cas = g_case;
        g_traps[n].phase = g_phase;
        g_traps[n].sig = g_trap_sig;
        g_traps[n].aux0 = g_aux0;
        g_traps[n].aux1 = g_aux1;
    }
    g_trap_total = n + 1;
    int ph = g_phase;
    if (ph >= 0 && ph < 4) g_trap_by_phase[ph] = g_trap_by_phase[ph] + 1;
    if (g_trap_sig == SIGVTALRM) g_hang_count = g_hang_count + 1;
    g_trapped = 0;
}

// Value loop with trap recovery: body(i) is called for i in [start, end); when a sanitizer trap
// fires inside body, the trap is recorded against (g_inst, i, g_phase, g_aux*) and the loop resumes
// at i + 1.  State the body wants to keep across a trap must live outside this function's frame
// (captured by reference, static or global), which is automatically the case for lambdas.
template <typename F>
__attribute__((noinline)) void run_loop(uint64_t start, uint64_t end, F &&body) {
    volatile uint64_t i = start;
    if (sigsetjmp(g_jb, 0) != 0) {
        note_trap();
        g_phase = PH_ORACLE;
        i = i + 1;
        if (g_hang_count >= g_hang_budget) { g_armed = 0; g_loops_cut_short = g_loops_cut_short + 1; return; }
    }
    if (g_hang_count >= g_hang_budget) { g_loops_cut_short = g_loops_cut_short + 1; return; }
    g_armed = 1;
    for (; i < end; i = i + 1) {
        uint64_t cur = i;
        g_case = cur;
        body(cur);
    }
    g_armed = 0;
}

// ---------------------------------------------------------------------------------------------
// PRNG (splitmix64); wraps on purpose, so excluded from the integer sanitizers.
struct Rng {
    uint64_t s;
    explicit Rng(uint64_t seed) : s(seed) {}
    VF_NOSAN uint64_t next() {
        uint64_t z = (s += 0x9E3779B97F4A7C15ull);
        z = (z ^ (z >> 30)) * 0xBF58476D1CE4E5B9ull;
        z = (z ^ (z >> 27)) * 0x94D049BB133111EBull;
        return z ^ (z >> 31);
    }
    // log-uniform magnitude: random bit width then random bits
    VF_NOSAN uint64_t next_loguniform() {
        uint64_t w = next() % 65;
        if (w == 0) return 0;
        uint64_t v = next();
        if (w < 64) v &= ((1ull << w) - 1);
        v |= (1ull << (w - 1));
        return v;
    }
};

// ---------------------------------------------------------------------------------------------
// JSON helpers (stdout is the event log).
inline void print_i128(__int128 v) {
    if (v == 0) { fputs("0", stdout); return; }
    char buf[48]; int n = 0; bool neg = v < 0;
    unsigned __int128 u = neg ? (unsigned __int128)(-(v + 1)) + 1 : (unsigned __int128)v;
    while (u) { buf[n++] = (char)('0' + (int)(u % 10)); u /= 10; }
    if (neg) fputc('-', stdout);
    while (n) fputc(buf[--n], stdout);
}

inline void print_traps_json() {
    printf("{\"ev\":\"traps\",\"total\":%llu,\"by_phase\":{\"ORACLE\":%llu,\"CHECKER\":%llu,\"OPERATION\":%llu,\"IO\":%llu},\"recs\":[",
           (unsigned long long)g_trap_total, (unsigned long long)g_trap_by_phase[0], (unsigned long long)g_trap_by_phase[1],
           (unsigned long long)g_trap_by_phase[2], (unsigned long long)g_trap_by_phase[3]);
    uint64_t n = g_trap_total < (uint64_t)kMaxTrapRecs ? g_trap_total : (uint64_t)kMaxTrapRecs;
    for (uint64_t i = 0; i < n; ++i) {
        printf("%s{\"inst\":%ld,\"case\":%llu,\"phase\":\"%s\",\"sig\":%d,\"aux0\":%llu,\"aux1\":%llu}", i ? "," : "", g_traps[i].inst,
               (unsigned long long)g_traps[i].cas, kPhaseName[g_traps[i].phase & 3], g_traps[i].sig,
               (unsigned long long)g_traps[i].aux0, (unsigned long long)g_traps[i].aux1);
    }
    printf("]}\n");
}

#if defined(VF_DIAG)
struct DiagRec { long inst; uint64_t cas; int phase; char kind[48]; char file[96]; unsigned line; uint64_t aux0, aux1; };
static DiagRec g_diag[512];
static volatile int g_diag_n = 0;
static volatile uint64_t g_diag_total = 0;
#endif

}  // namespace vf

#if defined(VF_DIAG)
extern "C" void __ubsan_get_current_report_data(const char **OutIssueKind, const char **OutMessage,
                                                 const char **OutFilename, unsigned *OutLine, unsigned *OutCol,
                                                 char **OutMemoryAddr);
extern "C" void __ubsan_on_report(void) {
    const char *kind = "", *msg = "", *file = "";
    unsigned line = 0, col = 0;
    char *addr = nullptr;
    __ubsan_get_current_report_data(&kind, &msg, &file, &line, &col, &addr);
    vf::g_diag_total = vf::g_diag_total + 1;
    int n = vf::g_diag_n;
    if (n < 512) {
        vf::DiagRec &r = vf::g_diag[n];
        r.inst = vf::g_inst; r.cas = vf::g_case; r.phase = vf::g_phase; r.line = line;
        r.aux0 = vf::g_aux0; r.aux1 = vf::g_aux1;
        strncpy(r.kind, kind ? kind : "", sizeof(r.kind) - 1); r.kind[sizeof(r.kind) - 1] = 0;
        const char *f = file ? file : "";
        size_t L = strlen(f);
        if (L > sizeof(r.file) - 1) f += L - (sizeof(r.file) - 1);
        strncpy(r.file, f, sizeof(r.file) - 1); r.file[sizeof(r.file) - 1] = 0;
        vf::g_diag_n = n + 1;
    }
}
namespace vf {
inline void print_diag_json() {
    printf("{\"ev\":\"diag\",\"total\":%llu,\"recs\":[", (unsigned long long)g_diag_total);
    for (int i = 0; i < g_diag_n; ++i) {
        printf("%s{\"inst\":%ld,\"case\":%llu,\"phase\":\"%s\",\"kind\":\"%s\",\"file\":\"%s\",\"line\":%u,\"aux0\":%llu,\"aux1\":%llu}", i ? "," : "",
               g_diag[i].inst, (unsigned long long)g_diag[i].cas, kPhaseName[g_diag[i].phase & 3], g_diag[i].kind,
               g_diag[i].file, g_diag[i].line, (unsigned long long)g_diag[i].aux0, (unsigned long long)g_diag[i].aux1);
    }
    printf("]}\n");
}
}  // namespace vf
#else
namespace vf {
inline void print_diag_json() {}
}
#endif

#if defined(VF_ASAN)
// ASan errors are fatal; print the current case first so the runner can key the abort.
extern "C" void __asan_on_error(void) {
    fprintf(stderr, "VF_ASAN_ERROR inst=%ld case=%llu phase=%s\n", vf::g_inst, (unsigned long long)vf::g_case,
            vf::kPhaseName[vf::g_phase & 3]);
    fflush(stdout);
}
#endif

#endif  // VF_MONITOR_HH
