// Plane A harness for C08: mixed-unit comparison, addition, subtraction, modulo.
#ifndef VF_MIXED_HH
#define VF_MIXED_HH

#include <cmath>
#include <vector>
#if defined(__cpp_impl_three_way_comparison) && __cpp_impl_three_way_comparison >= 201907L
#include <compare>
#endif

#include "au/au.hh"
#include "vf_monitor.hh"
#include "vf_wrapper.hh"  // operand streams, fmt helpers

namespace vfm {
using u64 = uint64_t;
using i128 = __int128;
typedef long double ld;

struct Stats {
    u64 evals, in_domain, out_of_domain, skipped_band, mm;
    struct W { const char *op; char a[40], b[40], got[40], want[40]; } wit[16];
    int nwit;
    void clear() { memset(this, 0, sizeof(*this)); }
};
static Stats g_st;

template <typename A, typename B, typename G, typename Wt>
void mismatch(const char *op, A a, B b, G got, Wt want) {
    g_st.mm++;
    if (g_st.nwit < 16) {
        auto &w = g_st.wit[g_st.nwit++];
        w.op = op;
        vfw::fmt(w.a, a, std::is_floating_point<A>{}); vfw::fmt(w.b, b, std::is_floating_point<B>{});
        vfw::fmt(w.got, got, std::is_floating_point<G>{}); vfw::fmt(w.want, want, std::is_floating_point<Wt>{});
    }
}

template <typename T>
bool fits(i128 v) { return v >= (i128)std::numeric_limits<T>::lowest() && v <= (i128)std::numeric_limits<T>::max(); }

#if defined(__cpp_impl_three_way_comparison) && __cpp_impl_three_way_comparison >= 201907L
template <typename Q1, typename Q2>
int spaceship(Q1 a, Q2 b) { auto c = (a <=> b); return c < 0 ? -1 : (c > 0 ? 1 : (c == 0 ? 0 : 2)); }
#define VF_HAS_SPACESHIP 1
#else
#define VF_HAS_SPACESHIP 0
#endif

// Integral reps.  U1 = k1 * CU, U2 = k2 * CU where CU is the generator's independently computed common unit.
template <typename U1, typename R1, typename U2, typename R2, typename CU>
__attribute__((noinline)) void run_int(long id, const char *desc, u64 k1, u64 k2, u64 nrandom, u64 seed) {
    using C = std::common_type_t<R1, R2>;
    // the raw +, -, % on two values of the common rep happen in its promoted type (int for 8/16-bit reps): that is the
    // type in which "the exact sum expressed in the common unit" must be representable, and in which it is read back
    using P = decltype(C{} + C{});
    g_st.clear();
    vf::g_inst = id;
    static std::vector<R1> va;
    static std::vector<R2> vb;
    va = vfw::int_operands<R1>(nrandom, seed);
    vb = vfw::int_operands<R2>(nrandom, seed + 1);
    // boundary: per-operand overflow thresholds of the scaling to the common unit, +-2
    {
        const i128 cl = std::numeric_limits<C>::lowest(), ch = std::numeric_limits<C>::max();
        for (int d = -2; d <= 2; ++d) {
            i128 t1 = ch / (i128)k1 + d, t2 = ch / (i128)k2 + d, n1 = cl / (i128)k1 + d, n2 = cl / (i128)k2 + d;
            if (fits<R1>(t1)) va.push_back((R1)t1);
            if (fits<R1>(n1)) va.push_back((R1)n1);
            if (fits<R2>(t2)) vb.push_back((R2)t2);
            if (fits<R2>(n2)) vb.push_back((R2)n2);
        }
        // equal magnitudes +-1 in common units: a*k1 == b*k2 +- 1
        for (int m = 1; m <= 40; ++m) {
            i128 a = (i128)k2 * m, b = (i128)k1 * m;
            for (int d = -1; d <= 1; ++d) { if (fits<R1>(a + d)) va.push_back((R1)(a + d)); if (fits<R2>(b + d)) vb.push_back((R2)(b + d)); if (fits<R1>(-a + d)) va.push_back((R1)(-a + d)); if (fits<R2>(-b + d)) vb.push_back((R2)(-b + d)); }
        }
    }
    const size_t na = va.size(), nb = vb.size();
    const u64 partners = (sizeof(R1) == 1 || sizeof(R2) == 1) ? nb : 32;
    static const R1 *pa; static const R2 *pb;
    pa = va.data(); pb = vb.data();
    vf::run_loop(0, na * partners, [&](u64 idx) {
        const R1 a = pa[idx / partners];
        const R2 b = pb[partners == nb ? (idx % partners) : ((idx / partners) * 13 + (idx % partners) * 29 + 5) % nb];
        vf::g_aux0 = (u64)a; vf::g_aux1 = (u64)b;
        const i128 A = (i128)a * (i128)k1, B = (i128)b * (i128)k2;
        g_st.evals++;
        // domain: both operands, cast to the common rep and scaled to the common unit, are representable
        if (!fits<C>((i128)a) || !fits<C>((i128)b) || !fits<C>(A) || !fits<C>(B)) { g_st.out_of_domain++; return; }
        g_st.in_domain++;
        auto qa = au::make_quantity<U1>(vf::launder(a));
        auto qb = au::make_quantity<U2>(vf::launder(b));
        bool eq = false, ne = false, lt = false, le = false, gt = false, ge = false;
        VF_PHASE(vf::PH_OPERATION) { eq = qa == qb; ne = qa != qb; lt = qa < qb; le = qa <= qb; gt = qa > qb; ge = qa >= qb; }
        if (eq != (A == B)) mismatch("==", a, b, (int)eq, (int)(A == B));
        if (ne != (A != B)) mismatch("!=", a, b, (int)ne, (int)(A != B));
        if (lt != (A < B)) mismatch("<", a, b, (int)lt, (int)(A < B));
        if (le != (A <= B)) mismatch("<=", a, b, (int)le, (int)(A <= B));
        if (gt != (A > B)) mismatch(">", a, b, (int)gt, (int)(A > B));
        if (ge != (A >= B)) mismatch(">=", a, b, (int)ge, (int)(A >= B));
        // swapped operand order (antisymmetry)
        bool lt2 = false, gt2 = false, eq2 = false;
        VF_PHASE(vf::PH_OPERATION) { lt2 = qb < qa; gt2 = qb > qa; eq2 = qb == qa; }
        if (lt2 != (B < A) || gt2 != (B > A) || eq2 != (A == B)) mismatch("swapped-compare", a, b, (int)lt2, (int)(B < A));
#if VF_HAS_SPACESHIP
        { int s = 9; VF_PHASE(vf::PH_OPERATION) { s = spaceship(qa, qb); } int w = A < B ? -1 : (A > B ? 1 : 0); if (s != w) mismatch("<=>", a, b, s, w); }
#endif
        if (fits<P>(A + B)) { i128 r = 0; VF_PHASE(vf::PH_OPERATION) { r = (i128)(qa + qb).coerce_in(CU{}); } if (r != A + B) mismatch("+", a, b, (long long)r, (P)(A + B)); }
        if (fits<P>(A - B)) { i128 r = 0; VF_PHASE(vf::PH_OPERATION) { r = (i128)(qa - qb).coerce_in(CU{}); } if (r != A - B) mismatch("-", a, b, (long long)r, (P)(A - B)); }
        if (B != 0 && !(A == (i128)std::numeric_limits<P>::lowest() && B == -1)) {
            i128 r = 0; VF_PHASE(vf::PH_OPERATION) { r = (i128)(qa % qb).coerce_in(CU{}); }
            i128 w = A % B;  // C++ truncated-division remainder
            if (r != w) mismatch("%", a, b, (long long)r, (P)w);
        }
    });
    printf("{\"ev\":\"mixed\",\"id\":%ld,\"desc\":\"%s\",\"evals\":%llu,\"in_domain\":%llu,\"out_of_domain\":%llu,\"mm\":%llu,\"spaceship\":%d,\"wit\":[", id, desc,
           (unsigned long long)g_st.evals, (unsigned long long)g_st.in_domain, (unsigned long long)g_st.out_of_domain, (unsigned long long)g_st.mm, VF_HAS_SPACESHIP);
    for (int i = 0; i < g_st.nwit; ++i)
        printf("%s{\"op\":\"%s\",\"a\":\"%s\",\"b\":\"%s\",\"got\":\"%s\",\"want\":\"%s\"}", i ? "," : "", g_st.wit[i].op, g_st.wit[i].a, g_st.wit[i].b, g_st.wit[i].got, g_st.wit[i].want);
    printf("]}\n");
}

template <typename T>
ld ulp_of(ld e) {
    e = std::fabs(e);
    if (e == 0 || !std::isfinite(e)) return (ld)std::numeric_limits<T>::denorm_min();
    int ex; std::frexp(e, &ex);
    ld u = std::ldexp((ld)1, ex - std::numeric_limits<T>::digits);
    ld dm = (ld)std::numeric_limits<T>::denorm_min();
    return u < dm ? dm : u;
}

// Floating reps: results within a few ulp of the exact value; comparisons judged outside a near-equality band.
template <typename U1, typename R1, typename U2, typename R2, typename CU>
__attribute__((noinline)) void run_float(long id, const char *desc, ld k1, ld k2, u64 nrandom, u64 seed) {
    using C = std::common_type_t<R1, R2>;
    g_st.clear();
    vf::g_inst = id;
    static std::vector<R1> va; static std::vector<R2> vb;
    va = vfw::float_operands<R1>(nrandom, seed); vb = vfw::float_operands<R2>(nrandom, seed + 1);
    for (int m = 1; m <= 30; ++m) { va.push_back((R1)(k2 * m)); vb.push_back((R2)(k1 * m)); }
    const size_t nb = vb.size();
    static const R1 *pa; static const R2 *pb;
    pa = va.data(); pb = vb.data();
    vf::run_loop(0, va.size() * 16, [&](u64 idx) {
        const R1 a = pa[idx / 16];
        const R2 b = pb[((idx / 16) * 13 + (idx % 16) * 29 + 5) % nb];
        g_st.evals++;
        if (!std::isfinite((ld)a) || !std::isfinite((ld)b)) { g_st.out_of_domain++; return; }
        const ld A = (ld)a * k1, B = (ld)b * k2;
        if (std::fabs(A) > (ld)std::numeric_limits<C>::max() / 4 || std::fabs(B) > (ld)std::numeric_limits<C>::max() / 4) { g_st.out_of_domain++; return; }
        // results that underflow into C's denormal range lose relative precision legitimately
        g_st.in_domain++;
        auto qa = au::make_quantity<U1>(vf::launder(a));
        auto qb = au::make_quantity<U2>(vf::launder(b));
        const ld tolA = 3 * ulp_of<C>(A), tolB = 3 * ulp_of<C>(B);
        bool lt = false, gt = false, eq = false, le = false, ge = false, ne = false;
        VF_PHASE(vf::PH_OPERATION) { eq = qa == qb; ne = qa != qb; lt = qa < qb; le = qa <= qb; gt = qa > qb; ge = qa >= qb; }
        if (ne == eq || le != (lt || eq) || ge != (gt || eq) || (lt && gt)) mismatch("inconsistent-compare", a, b, (int)lt, (int)gt);
        if (std::fabs(A - B) > 2 * (tolA + tolB)) {
            if (lt != (A < B) || gt != (A > B) || eq) mismatch("compare", a, b, (int)lt, (int)(A < B));
        } else g_st.skipped_band++;
#if VF_HAS_SPACESHIP
        { int s3 = 9; VF_PHASE(vf::PH_OPERATION) { s3 = spaceship(qa, qb); } int w = lt ? -1 : (gt ? 1 : (eq ? 0 : 2)); if (s3 != w) mismatch("<=>", a, b, s3, w); }
#endif
        C s{}, d{};
        VF_PHASE(vf::PH_OPERATION) { s = (qa + qb).coerce_in(CU{}); d = (qa - qb).coerce_in(CU{}); }
        // each operand conversion may be off by ~1.5 ulp of itself, the final operation by 0.5 ulp of the result
        ld tol_s = 2 * (tolA + tolB) + ulp_of<C>(A + B), tol_d = 2 * (tolA + tolB) + ulp_of<C>(A - B);
        if (!(std::fabs((ld)s - (A + B)) <= tol_s)) mismatch("+", a, b, s, (C)(A + B));
        if (!(std::fabs((ld)d - (A - B)) <= tol_d)) mismatch("-", a, b, d, (C)(A - B));
    });
    // special values: signed zeros, NaN, infinities on either side.  No exact value is judged here; the six comparisons must be
    // mutually consistent and (C++20) <=> must say exactly what they say (unordered when none of <, ==, > holds)
    {
        const R1 sa[] = {R1(0), -R1(0), R1(1), -R1(1), std::numeric_limits<R1>::quiet_NaN(), std::numeric_limits<R1>::infinity(), -std::numeric_limits<R1>::infinity(), std::numeric_limits<R1>::denorm_min()};
        const R2 sb[] = {R2(0), -R2(0), R2(1), -R2(1), std::numeric_limits<R2>::quiet_NaN(), std::numeric_limits<R2>::infinity(), -std::numeric_limits<R2>::infinity(), std::numeric_limits<R2>::denorm_min()};
        static const R1 *psa; static const R2 *psb;
        psa = sa; psb = sb;
        vf::run_loop(0, 64, [&](u64 idx) {
            const R1 a = vf::launder(psa[idx / 8]); const R2 b = vf::launder(psb[idx % 8]);
            auto qa = au::make_quantity<U1>(a); auto qb = au::make_quantity<U2>(b);
            bool lt = false, gt = false, eq = false, le = false, ge = false, ne = false;
            VF_PHASE(vf::PH_OPERATION) { eq = qa == qb; ne = qa != qb; lt = qa < qb; le = qa <= qb; gt = qa > qb; ge = qa >= qb; }
            g_st.evals++;
            const bool nan = (a != a) || (b != b);
            if (ne == eq || le != (lt || eq) || ge != (gt || eq) || (lt && gt) || (nan && (lt || gt || eq))) mismatch("inconsistent-compare(special)", a, b, (int)lt, (int)gt);
            // both zero (any signs): equal; zero vs a non-zero finite or infinite value: ordered by the sign of the other operand
            if (!nan && a == 0 && b == 0 && !eq) mismatch("==(zeros)", a, b, (int)eq, 1);
            if (!nan && a == 0 && b != 0 && (lt != (b > 0) || gt != (b < 0))) mismatch("compare(zero,x)", a, b, (int)lt, (int)(b > 0));
#if VF_HAS_SPACESHIP
            { int s3 = 9; VF_PHASE(vf::PH_OPERATION) { s3 = spaceship(qa, qb); } int w = lt ? -1 : (gt ? 1 : (eq ? 0 : 2)); if (s3 != w) mismatch("<=>(special)", a, b, s3, w); }
#endif
        });
    }
    printf("{\"ev\":\"mixed\",\"id\":%ld,\"desc\":\"%s\",\"evals\":%llu,\"in_domain\":%llu,\"out_of_domain\":%llu,\"band\":%llu,\"mm\":%llu,\"spaceship\":0,\"wit\":[", id, desc,
           (unsigned long long)g_st.evals, (unsigned long long)g_st.in_domain, (unsigned long long)g_st.out_of_domain, (unsigned long long)g_st.skipped_band, (unsigned long long)g_st.mm);
    for (int i = 0; i < g_st.nwit; ++i)
        printf("%s{\"op\":\"%s\",\"a\":\"%s\",\"b\":\"%s\",\"got\":\"%s\",\"want\":\"%s\"}", i ? "," : "", g_st.wit[i].op, g_st.wit[i].a, g_st.wit[i].b, g_st.wit[i].got, g_st.wit[i].want);
    printf("]}\n");
}

}  // namespace vfm
#endif
