// Plane A harness templates for C03 / C04 (same-rep conversions and their runtime checkers).
// The oracle below is written from the mathematical statement only (sign + 128-bit magnitude
// arithmetic); it shares no code with the library's threshold computation.
#ifndef VF_CONV_HH
#define VF_CONV_HH

#include <algorithm>
#include <cmath>
#include <vector>

#include "au/au.hh"
#include "vf_monitor.hh"

namespace vfc {

using u128 = unsigned __int128;
using i128 = __int128;
using u64 = uint64_t;

template <typename T>
struct Lim {
    using P = decltype(std::declval<T>() * std::declval<T>());
    static i128 lo() { return (i128)std::numeric_limits<T>::lowest(); }
    static i128 hi() { return (i128)std::numeric_limits<T>::max(); }
    static i128 plo() { return (i128)std::numeric_limits<P>::lowest(); }
    static i128 phi() { return (i128)std::numeric_limits<P>::max(); }
};

inline u128 uabs(i128 v) { return v < 0 ? (u128)(-(v + 1)) + 1 : (u128)v; }

// Exact facts about x * N / D for x in T.
template <typename T>
struct Exact {
    bool overflow;   // x*N outside promoted range, or x*N/D (as a rational) outside T's range
    bool truncate;   // x*N not divisible by D
    bool have_value; // !overflow && !truncate
    i128 value;
    static VF_NOSAN Exact of(i128 x, u64 N, u64 D) {
        Exact e;
        u128 ax = uabs(x);
        u128 prod = ax * (u128)N;  // < 2^128: both factors < 2^64
        bool neg = x < 0;
        u128 pbound = neg ? uabs(Lim<T>::plo()) : (u128)Lim<T>::phi();
        u128 tbound = (neg ? uabs(Lim<T>::lo()) : (u128)Lim<T>::hi()) * (u128)D;
        e.overflow = (prod > pbound) || (prod > tbound);
        e.truncate = (prod % (u128)D) != 0;
        e.have_value = !e.overflow && !e.truncate;
        u128 q = prod / (u128)D;
        e.value = neg ? -(i128)q : (i128)q;
        return e;
    }
};

struct Stats {
    u64 evals, cleared, lib_trunc, lib_ovf, ex_trunc, ex_ovf;
    u64 mm_trunc, mm_ovf, mm_lossy, mm_value, mm_policy_value;
    u64 near_threshold;
    struct W { const char *kind; i128 x; int lt, lo, ll, et, eo; i128 got, want; };
    W wit[24];
    int nwit;
    void clear() { memset(this, 0, sizeof(*this)); }
    void witness(const char *kind, i128 x, int lt, int lo, int ll, int et, int eo, i128 got, i128 want) {
        int same = 0;
        for (int i = 0; i < nwit; ++i) if (!strcmp(wit[i].kind, kind)) ++same;
        if (nwit < 24 && same < 6) { wit[nwit++] = W{kind, x, lt, lo, ll, et, eo, got, want}; }
    }
};
static Stats g_st;

inline void print_stats(long id, const char *tname, u64 N, u64 D, int conv, const char *stream) {
    printf("{\"ev\":\"inst\",\"id\":%ld,\"T\":\"%s\",\"N\":%llu,\"D\":%llu,\"conv\":%d,\"stream\":\"%s\",\"evals\":%llu,\"cleared\":%llu,"
           "\"lib_trunc\":%llu,\"lib_ovf\":%llu,\"ex_trunc\":%llu,\"ex_ovf\":%llu,\"near\":%llu,"
           "\"mm\":{\"trunc\":%llu,\"ovf\":%llu,\"lossy\":%llu,\"value\":%llu,\"policy_value\":%llu},\"wit\":[",
           id, tname, (unsigned long long)N, (unsigned long long)D, conv, stream, (unsigned long long)g_st.evals,
           (unsigned long long)g_st.cleared, (unsigned long long)g_st.lib_trunc, (unsigned long long)g_st.lib_ovf,
           (unsigned long long)g_st.ex_trunc, (unsigned long long)g_st.ex_ovf, (unsigned long long)g_st.near_threshold,
           (unsigned long long)g_st.mm_trunc, (unsigned long long)g_st.mm_ovf, (unsigned long long)g_st.mm_lossy,
           (unsigned long long)g_st.mm_value, (unsigned long long)g_st.mm_policy_value);
    for (int i = 0; i < g_st.nwit; ++i) {
        const Stats::W &w = g_st.wit[i];
        printf("%s{\"kind\":\"%s\",\"x\":\"", i ? "," : "", w.kind);
        vf::print_i128(w.x);
        printf("\",\"lib\":[%d,%d,%d],\"exact\":[%d,%d],\"got\":\"", w.lt, w.lo, w.ll, w.et, w.eo);
        vf::print_i128(w.got);
        printf("\",\"want\":\"");
        vf::print_i128(w.want);
        printf("\"}");
    }
    printf("]}\n");
}

// ---- conversion call, compiled only when the generator's model says it compiles -------------
template <typename T, typename SrcU, typename DstU, int kConv>
struct Conv {  // kConv == 0: conversion not instantiated
    static bool apply(au::Quantity<SrcU, T>, T &, T &) { return false; }
    static bool policy(au::Quantity<SrcU, T>, T &, T &) { return false; }
};
template <typename T, typename SrcU, typename DstU>
struct Conv<T, SrcU, DstU, 1> {
    static bool apply(au::Quantity<SrcU, T> q, T &r_in, T &r_as) {
        r_in = q.coerce_in(DstU{});
        r_as = q.coerce_as(DstU{}).in(DstU{});
        return true;
    }
    static bool policy(au::Quantity<SrcU, T>, T &, T &) { return false; }
};
template <typename T, typename SrcU, typename DstU>
struct Conv<T, SrcU, DstU, 2> : Conv<T, SrcU, DstU, 1> {
    static bool policy(au::Quantity<SrcU, T> q, T &r_in, T &r_as) {
        r_in = q.in(DstU{});
        r_as = q.as(DstU{}).in(DstU{});
        return true;
    }
};

// ---- value streams ----------------------------------------------------------------------------
template <typename T>
VF_NOSAN void push_near(std::vector<T> &v, i128 c, int radius) {
    for (int d = -radius; d <= radius; ++d) {
        i128 y = c + d;
        if (y >= Lim<T>::lo() && y <= Lim<T>::hi()) v.push_back((T)y);
    }
}

template <typename T>
VF_NOSAN std::vector<T> boundary_and_random(u64 N, u64 D, u64 nrandom, u64 seed) {
    std::vector<T> v;
    const i128 lo = Lim<T>::lo(), hi = Lim<T>::hi();
    // The oracle's own exact thresholds (largest / smallest x that neither overflows).
    u128 pmaxq = (u128)Lim<T>::phi() / N, tmaxq = ((u128)hi * D) / N;
    u128 tpos = std::min(std::min(pmaxq, tmaxq), (u128)hi);
    push_near<T>(v, (i128)tpos, 4);
    push_near<T>(v, (i128)pmaxq <= hi ? (i128)pmaxq : hi, 3);
    push_near<T>(v, (i128)tmaxq <= hi ? (i128)tmaxq : hi, 3);
    if (lo < 0) {
        u128 pminq = uabs(Lim<T>::plo()) / N, tminq = (uabs(lo) * D) / N;
        u128 tneg = std::min(std::min(pminq, tminq), uabs(lo));
        push_near<T>(v, -(i128)tneg, 4);
        push_near<T>(v, pminq <= uabs(lo) ? -(i128)pminq : lo, 3);
        push_near<T>(v, tminq <= uabs(lo) ? -(i128)tminq : lo, 3);
        // multiples of D around the negative threshold
        i128 k = (i128)(tneg / D);
        for (int d = -2; d <= 2; ++d) push_near<T>(v, -((k + d) * (i128)D), 1);
    }
    {
        i128 k = (i128)(tpos / D);
        for (int d = -2; d <= 2; ++d) push_near<T>(v, (k + d) * (i128)D, 1);
    }
    push_near<T>(v, lo, 4);
    push_near<T>(v, hi, 4);
    push_near<T>(v, 0, 3);
    push_near<T>(v, (i128)D, 1);
    push_near<T>(v, -(i128)D, 1);
    push_near<T>(v, (i128)N, 1);
    push_near<T>(v, -(i128)N, 1);
    for (int b = 1; b < 64; ++b) {
        push_near<T>(v, ((i128)1 << b), 1);
        push_near<T>(v, -((i128)1 << b), 1);
    }
    vf::Rng r(seed);
    const u128 span = (u128)(hi - lo) + 1;  // may be 2^64
    for (u64 i = 0; i < nrandom; ++i) {
        u64 sel = r.next() & 7;
        i128 y;
        if (sel < 2) {  // uniform bits
            y = lo + (i128)((u128)r.next() % span);
        } else if (sel < 4) {  // log-uniform magnitude, random sign
            y = (i128)r.next_loguniform();
            if (lo < 0 && (r.next() & 1)) y = -y;
        } else if (sel < 7) {  // multiple of D (so that cleared inputs are common), log-uniform multiplier
            u128 kmax = (u128)hi / D;
            i128 k = kmax ? (i128)((u128)r.next_loguniform() % (kmax + 1)) : 0;
            y = k * (i128)D;
            if (lo < 0 && (r.next() & 1)) y = -y;
        } else {  // multiple of D within +-64*D of the positive/negative threshold
            i128 k = (i128)(tpos / D) - 32 + (i128)(r.next() % 64);
            y = k * (i128)D;
            if (lo < 0 && (r.next() & 1)) y = -y;
        }
        if (y < lo || y > hi) continue;
        v.push_back((T)y);
    }
    return v;
}

// mode: 0 = exhaustive over T, 1 = boundary + nrandom random
template <typename T, typename SrcU, typename DstU, int kConv>
__attribute__((noinline)) void run_int_instance(long id, const char *tname, u64 N, u64 D, int mode, u64 nrandom, u64 seed) {
    g_st.clear();
    vf::g_inst = id;
    std::vector<T> vals;
    u128 count;
    const i128 lo = Lim<T>::lo(), hi = Lim<T>::hi();
    if (mode == 0) {
        count = (u128)(hi - lo) + 1;
    } else {
        vals = boundary_and_random<T>(N, D, nrandom, seed);
        count = vals.size();
    }
    const T *pv = vals.data();
    vf::run_loop(0, (u64)count, [&](u64 i) {
        T x = (mode == 0) ? (T)(lo + (i128)i) : pv[i];
        vf::g_aux0 = (u64)x;
        auto q = au::make_quantity<SrcU>(vf::launder(x));
        bool t = false, o = false, l = false;
        VF_PHASE(vf::PH_CHECKER) {
            t = au::will_conversion_truncate(q, DstU{});
            o = au::will_conversion_overflow(q, DstU{});
            l = au::is_conversion_lossy(q, DstU{});
        }
        Exact<T> e = Exact<T>::of((i128)x, N, D);
        g_st.evals++;
        g_st.lib_trunc += t;
        g_st.lib_ovf += o;
        g_st.ex_trunc += e.truncate;
        g_st.ex_ovf += e.overflow;
        if (t != e.truncate) { g_st.mm_trunc++; g_st.witness("trunc", x, t, o, l, e.truncate, e.overflow, 0, 0); }
        if (o != e.overflow) { g_st.mm_ovf++; g_st.witness("ovf", x, t, o, l, e.truncate, e.overflow, 0, 0); }
        if (l != (t || o)) { g_st.mm_lossy++; g_st.witness("lossy", x, t, o, l, e.truncate, e.overflow, 0, 0); }
        if (!l && kConv) {
            g_st.cleared++;
            T r_in = 0, r_as = 0;
            VF_PHASE(vf::PH_OPERATION) { Conv<T, SrcU, DstU, kConv>::apply(q, r_in, r_as); }
            // exact: r * D == x * N   (only meaningful when the exact result exists)
            bool ok = e.have_value && (i128)r_in == e.value && (i128)r_as == e.value;
            if (!ok) { g_st.mm_value++; g_st.witness("value", x, t, o, l, e.truncate, e.overflow, (i128)r_in, e.value); }
            if (kConv == 2) {
                T p_in = 0, p_as = 0;
                VF_PHASE(vf::PH_OPERATION) { Conv<T, SrcU, DstU, kConv>::policy(q, p_in, p_as); }
                bool okp = e.have_value && (i128)p_in == e.value && (i128)p_as == e.value;
                if (!okp) { g_st.mm_policy_value++; g_st.witness("policy_value", x, t, o, l, e.truncate, e.overflow, (i128)p_in, e.value); }
            }
        }
    });
    print_stats(id, tname, N, D, kConv, mode == 0 ? "exhaustive" : "boundary+random");
}

// ---- floating reps (C04, last sentence) -------------------------------------------------------
struct FStats {
    u64 evals, judged_must, judged_mustnot, skipped_band, skipped_nonfinite, mm_must, mm_mustnot, mm_trunc, mm_lossy;
    struct W { const char *kind; long double x; int o; } wit[12];
    int nwit;
    void clear() { memset(this, 0, sizeof(*this)); }
    void witness(const char *k, long double x, int o) { if (nwit < 12) wit[nwit++] = W{k, x, o}; }
};
static FStats g_fs;

template <typename T>
std::vector<T> float_values(long double f, u64 nrandom, u64 seed) {
    std::vector<T> v;
    const T mx = std::numeric_limits<T>::max();
    const T specials[] = {T(0), -T(0), std::numeric_limits<T>::denorm_min(), std::numeric_limits<T>::min(), mx, -mx,
                          T(1), T(-1), std::numeric_limits<T>::infinity(), -std::numeric_limits<T>::infinity(),
                          std::numeric_limits<T>::quiet_NaN()};
    for (T s : specials) v.push_back(s);
    // neighbours of max/f (the exact flip point), both signs, +-8 steps and wider relative offsets
    long double flip = (long double)mx / f;  // may be inf if f < 1: then no finite x overflows
    if (std::isfinite(flip) && flip <= (long double)mx) {
        T c = (T)flip;
        T up = c, dn = c;
        for (int i = 0; i < 8; ++i) { up = std::nextafter(up, std::numeric_limits<T>::infinity()); dn = std::nextafter(dn, T(0)); v.push_back(up); v.push_back(dn); v.push_back(-up); v.push_back(-dn); }
        v.push_back(c); v.push_back(-c);
        const long double rel[] = {1e-7L, 1e-6L, 2e-6L, 1e-5L, 1e-4L, 1e-3L, 1e-2L, 0.5L};
        for (long double r : rel) {
            long double a = flip * (1 + r), b = flip * (1 - r);
            if (a <= (long double)mx) { v.push_back((T)a); v.push_back(-(T)a); }
            v.push_back((T)b); v.push_back(-(T)b);
        }
    }
    for (int e = std::numeric_limits<T>::min_exponent - 3; e < std::numeric_limits<T>::max_exponent; e += 1 + (std::numeric_limits<T>::max_exponent > 2000 ? 37 : (std::numeric_limits<T>::max_exponent > 200 ? 5 : 0))) {
        v.push_back(std::ldexp(T(1), e)); v.push_back(-std::ldexp(T(1), e));
    }
    vf::Rng r(seed);
    for (u64 i = 0; i < nrandom; ++i) {
        // random mantissa, random exponent over the full range
        T m = (T)((long double)(r.next() >> 11) / (long double)(1ull << 53)) + T(0.5);
        int e = std::numeric_limits<T>::min_exponent + (int)(r.next() % (u64)(std::numeric_limits<T>::max_exponent - std::numeric_limits<T>::min_exponent + 1));
        T y = std::ldexp(m, e);
        if (r.next() & 1) y = -y;
        v.push_back(y);
    }
    return v;
}

// f_ld: the conversion factor to ~1e-19 relative accuracy, supplied by the generator (exact rational
// evaluated in long double, or pi-based).  kConv: whether the conversion compiles.
template <typename T, typename SrcU, typename DstU, int kConv>
__attribute__((noinline)) void run_float_instance(long id, const char *tname, const char *fname, long double f, u64 nrandom, u64 seed) {
    g_fs.clear();
    vf::g_inst = id;
    std::vector<T> vals = float_values<T>(f, nrandom, seed);
    const T *pv = vals.data();
    const long double mx = (long double)std::numeric_limits<T>::max();
    const long double band = 1.0L + std::ldexp(1.0L, -20);
    // scale everything by 2^-k so that |x|*f cannot overflow long double itself
    int kf;
    long double fm = std::frexp(f, &kf);  // f = fm * 2^kf, fm in [0.5,1)
    vf::run_loop(0, vals.size(), [&](u64 i) {
        T x = pv[i];
        auto q = au::make_quantity<SrcU>(vf::launder(x));
        bool t = false, o = false, l = false;
        VF_PHASE(vf::PH_CHECKER) {
            t = au::will_conversion_truncate(q, DstU{});
            o = au::will_conversion_overflow(q, DstU{});
            l = au::is_conversion_lossy(q, DstU{});
        }
        g_fs.evals++;
        if (l != (t || o)) { g_fs.mm_lossy++; g_fs.witness("lossy", x, o); }
        if (!std::isfinite(x)) { g_fs.skipped_nonfinite++; return; }
        int kx, km;
        long double xm = std::frexp(std::fabs((long double)x), &kx);
        long double mm = std::frexp(mx, &km);
        // compare xm*fm*2^(kx+kf) with mm*2^km
        long double lhs = xm * fm;  // in [0.25,1)
        long double ratio = (x == 0) ? 0.0L : std::ldexp(lhs / mm, std::max(-20000, std::min(20000, kx + kf - km)));
        if (ratio >= band) {
            g_fs.judged_must++;
            if (!o) { g_fs.mm_must++; g_fs.witness("must_overflow", x, o); }
        } else if (ratio <= 1.0L / band) {
            g_fs.judged_mustnot++;
            if (o) { g_fs.mm_mustnot++; g_fs.witness("must_not_overflow", x, o); }
        } else {
            g_fs.skipped_band++;
        }
    });
    printf("{\"ev\":\"finst\",\"id\":%ld,\"T\":\"%s\",\"factor\":\"%s\",\"conv\":%d,\"evals\":%llu,\"must\":%llu,\"mustnot\":%llu,\"band\":%llu,\"nonfinite\":%llu,"
           "\"mm\":{\"must\":%llu,\"mustnot\":%llu,\"lossy\":%llu},\"wit\":[",
           id, tname, fname, kConv, (unsigned long long)g_fs.evals, (unsigned long long)g_fs.judged_must,
           (unsigned long long)g_fs.judged_mustnot, (unsigned long long)g_fs.skipped_band, (unsigned long long)g_fs.skipped_nonfinite,
           (unsigned long long)g_fs.mm_must, (unsigned long long)g_fs.mm_mustnot, (unsigned long long)g_fs.mm_lossy);
    for (int i = 0; i < g_fs.nwit; ++i)
        printf("%s{\"kind\":\"%s\",\"x\":\"%La\",\"ovf\":%d}", i ? "," : "", g_fs.wit[i].kind, g_fs.wit[i].x, g_fs.wit[i].o);
    printf("]}\n");
}

}  // namespace vfc

#endif
