// Plane A/B harness for C14: products, quotients, powers and roots of quantities.
#ifndef VF_PROD_HH
#define VF_PROD_HH

#include <cmath>
#include <vector>

#include "au/au.hh"
#include "vf_monitor.hh"
#include "vf_reify.hh"
#include "vf_wrapper.hh"

namespace vfp {
using u64 = uint64_t;
using i128 = __int128;
typedef long double ld;

template <typename T>
struct IsQuantity : std::false_type {};
template <typename U, typename R>
struct IsQuantity<au::Quantity<U, R>> : std::true_type {};

template <typename U, typename R>
R raw_of(au::Quantity<U, R> q) { return q.in(U{}); }
template <typename T, typename = std::enable_if_t<std::is_arithmetic<T>::value>>
T raw_of(T x) { return x; }

template <typename X, bool Q = IsQuantity<X>::value>
struct UnitOf { using type = typename X::Unit; };
template <typename X>
struct UnitOf<X, false> { using type = au::UnitProductT<>; };

struct Stats {
    u64 evals, skipped, mm;
    struct W { const char *op; char a[40], b[40], got[40], want[40]; } wit[16];
    int nwit;
    void clear() { memset(this, 0, sizeof(*this)); }
};
static Stats g_st;
template <typename A, typename B, typename G, typename Wt>
void mismatch(const char *op, A a, B b, G got, Wt want) {
    g_st.mm++;
    if (g_st.nwit < 16) {
        auto &w = g_st.wit[g_st.nwit++]; w.op = op;
        vfw::fmt(w.a, a, std::is_floating_point<A>{}); vfw::fmt(w.b, b, std::is_floating_point<B>{});
        vfw::fmt(w.got, got, std::is_floating_point<G>{}); vfw::fmt(w.want, want, std::is_floating_point<Wt>{});
    }
}
inline void dump(const char *ev, long id, const char *desc) {
    printf("{\"ev\":\"%s\",\"id\":%ld,\"desc\":\"%s\",\"evals\":%llu,\"skipped\":%llu,\"mm\":%llu,\"wit\":[", ev, id, desc, (unsigned long long)g_st.evals, (unsigned long long)g_st.skipped, (unsigned long long)g_st.mm);
    for (int i = 0; i < g_st.nwit; ++i)
        printf("%s{\"op\":\"%s\",\"a\":\"%s\",\"b\":\"%s\",\"got\":\"%s\",\"want\":\"%s\"}", i ? "," : "", g_st.wit[i].op, g_st.wit[i].a, g_st.wit[i].b, g_st.wit[i].got, g_st.wit[i].want);
    printf("]}\n");
}

template <typename X>
void result_fact(long id, const char *op) {
    printf("{\"ev\":\"pfact\",\"id\":%ld,\"op\":\"%s\",\"is_quantity\":%d,", id, op, (int)IsQuantity<X>::value);
    vfy::unit_core<typename UnitOf<X>::type>();
    printf("}\n");
}

template <typename R1, typename R2, bool F = std::is_floating_point<decltype(std::declval<R1>() * std::declval<R2>())>::value>
struct RawOk {
    using P = decltype(std::declval<R1>() * std::declval<R2>());
    static bool fits(i128 v) { return v >= (i128)std::numeric_limits<P>::lowest() && v <= (i128)std::numeric_limits<P>::max(); }
    static bool mul(R1 a, R2 b) { return !std::is_signed<P>::value || fits((i128)a * (i128)b); }
    static bool div(R1 a, R2 b) { return b != 0 && !(std::is_signed<P>::value && (i128)(P)a == (i128)std::numeric_limits<P>::lowest() && (i128)(P)b == -1); }
};
template <typename R1, typename R2>
struct RawOk<R1, R2, true> {
    static bool mul(R1, R2) { return true; }
    static bool div(R1, R2) { return true; }
};

// plain `/` where the integer-division guard permits it (decided by the generator's model), unblock_int_div otherwise
template <bool Plain>
struct Div {
    template <typename A, typename B>
    static auto of(A a, B b) { return a / b; }
};
template <>
struct Div<false> {
    template <typename A, typename B>
    static auto of(A a, B b) { return a / au::unblock_int_div(b); }
};

// plain `scalar / quantity`: compiles unless both the scalar and the rep are integral (then the guard asks for unblock_int_div)
template <typename R1, typename Q2, bool Plain = !(std::is_integral<R1>::value && std::is_integral<typename Q2::Rep>::value)>
struct ScalarOver {
    static constexpr bool available = true;
    static auto of(R1 a, Q2 q) { return a / q; }
};
template <typename R1, typename Q2>
struct ScalarOver<R1, Q2, false> {
    static constexpr bool available = false;
    static auto of(R1 a, Q2 q) { return a / au::unblock_int_div(q); }
};

// unit symbols and constants as one operand: the stored number must be b (for *, q / wrapper) or R{1} / b (wrapper / q), in b's own rep
template <typename U1, typename U2, typename R2, bool F = std::is_floating_point<R2>::value>
struct WrapperForms {
    static void run(R2) {}
};
template <typename U1, typename U2, typename R2>
struct WrapperForms<U1, U2, R2, true> {
    template <typename G>
    static void judge(const char *op, R2 b, G got, R2 want) {
        g_st.evals++;
        if (!std::is_same<G, R2>::value) mismatch(op, b, b, got, want);
        else if (!(vfw::same_value((R2)got, want) || (got != got && want != want))) mismatch(op, b, b, got, want);
    }
    static void run(R2 b) {
        const auto sym = au::symbol_for(U1{});
        const auto cst = au::make_constant(U1{});
        auto qb = au::make_quantity<U2>(b);
        const R2 inv = R2{1} / b;
        auto r1 = raw_of(sym * qb); auto r2 = raw_of(qb * sym); auto r3 = raw_of(qb / sym); auto r4 = raw_of(sym / qb);
        auto r5 = raw_of(cst * qb); auto r6 = raw_of(qb * cst); auto r7 = raw_of(qb / cst); auto r8 = raw_of(cst / qb);
        VF_PHASE(vf::PH_OPERATION) {
            r1 = raw_of(sym * qb); r2 = raw_of(qb * sym); r3 = raw_of(qb / sym); r4 = raw_of(sym / qb);
            r5 = raw_of(cst * qb); r6 = raw_of(qb * cst); r7 = raw_of(qb / cst); r8 = raw_of(cst / qb);
        }
        judge("symbol*q", b, r1, b); judge("q*symbol", b, r2, b); judge("q/symbol", b, r3, b); judge("symbol/q", b, r4, inv);
        judge("constant*q", b, r5, b); judge("q*constant", b, r6, b); judge("q/constant", b, r7, b); judge("constant/q", b, r8, inv);
    }
};

template <typename U1, typename R1, typename U2, typename R2, bool PlainDiv>
__attribute__((noinline)) void run_pair(long id, const char *desc, u64 nrandom, u64 seed) {
    using Q1 = au::Quantity<U1, R1>;
    using Q2 = au::Quantity<U2, R2>;
    using ProdT = decltype(std::declval<Q1>() * std::declval<Q2>());
    using QuotT = decltype(Div<PlainDiv>::of(std::declval<Q1>(), std::declval<Q2>()));
    using InvT = decltype(std::declval<R1>() / au::unblock_int_div(std::declval<Q2>()));
    result_fact<ProdT>(id, "q*q");
    result_fact<QuotT>(id, PlainDiv ? "q/q" : "q/unblock(q)");
    result_fact<InvT>(id, "s/q");
    result_fact<decltype(ScalarOver<R1, Q2>::of(std::declval<R1>(), std::declval<Q2>()))>(id, ScalarOver<R1, Q2>::available ? "s/q(plain)" : "s/q");
    result_fact<decltype(std::declval<Q1>() * std::declval<R2>())>(id, "q*s");
    g_st.clear();
    vf::g_inst = id;
    static std::vector<R1> va; static std::vector<R2> vb;
    va = vfw::operands<R1>(nrandom, seed, std::is_floating_point<R1>{});
    vb = vfw::operands<R2>(nrandom, seed + 1, std::is_floating_point<R2>{});
    const size_t na = va.size(), nb = vb.size();
    const u64 partners = (sizeof(R1) == 1 && sizeof(R2) == 1) ? nb : 24;
    static const R1 *pa; static const R2 *pb;
    pa = va.data(); pb = vb.data();
    vf::run_loop(0, na * partners, [&](u64 idx) {
        const R1 a = vf::launder(pa[idx / partners]);
        const R2 b = vf::launder(pb[partners == nb ? idx % partners : ((idx / partners) * 7 + (idx % partners) * 31 + 1) % nb]);
        { u64 x = 0, y = 0; memcpy(&x, &a, sizeof(R1) < 8 ? sizeof(R1) : 8); memcpy(&y, &b, sizeof(R2) < 8 ? sizeof(R2) : 8); vf::g_aux0 = x; vf::g_aux1 = y; }
        Q1 qa = au::make_quantity<U1>(a);
        Q2 qb = au::make_quantity<U2>(b);
        if (RawOk<R1, R2>::mul(a, b)) {
            auto want = a * b;
            decltype(want) got{}, got2{};
            VF_PHASE(vf::PH_OPERATION) { got = raw_of(qa * qb); got2 = raw_of(qa * b); }
            g_st.evals += 2;
            if (!vfw::same_value(got, want)) mismatch("q*q", a, b, got, want);
            if (!vfw::same_value(got2, want)) mismatch("q*s", a, b, got2, want);
        } else g_st.skipped++;
        if (RawOk<R1, R2>::div(a, b)) {
            auto want = a / b;
            decltype(want) got{}, got2{}, got3{};
            VF_PHASE(vf::PH_OPERATION) { got = raw_of(Div<PlainDiv>::of(qa, qb)); got2 = raw_of(a / au::unblock_int_div(qb)); got3 = raw_of(ScalarOver<R1, Q2>::of(a, qb)); }
            g_st.evals += 3;
            if (!vfw::same_value(got, want)) mismatch("q/q", a, b, got, want);
            if (!vfw::same_value(got2, want)) mismatch("s/unblock(q)", a, b, got2, want);
            if (!vfw::same_value(got3, want)) mismatch("s/q", a, b, got3, want);
        } else g_st.skipped++;
        if ((idx & 7) == 0) WrapperForms<U1, U2, R2>::run(b);
    });
    dump("pprod", id, desc);
}

template <typename R, bool I = std::is_integral<R>::value>
struct PowOracle {  // integral: exact power when it fits
    template <int K>
    static bool judge(R x, R got, const char *&why) {
        i128 p = 1;
        for (int i = 0; i < K; ++i) {
            if (std::fabs((ld)p * (ld)x) > 1e37L) return true;  // far outside any rep: not judged
            p *= (i128)x;
        }
        using P = decltype(std::declval<R>() * std::declval<R>());
        if (p < (i128)std::numeric_limits<R>::lowest() || p > (i128)std::numeric_limits<R>::max()) return true;  // does not fit the rep: not judged
        (void)sizeof(P);
        if ((i128)got != p) { why = "int_pow"; return false; }
        return true;
    }
};
template <typename R>
struct PowOracle<R, false> {
    template <int K>
    static bool judge(R x, R got, const char *&why) {
        if (!std::isfinite((ld)x)) return true;
        ld p = 1; const int n = K < 0 ? -K : K;
        for (int i = 0; i < n; ++i) p *= (ld)x;
        if (K < 0) p = 1 / p;
        if (!std::isfinite(p) || std::fabs(p) > (ld)std::numeric_limits<R>::max() / 2 || (p != 0 && std::fabs(p) < (ld)std::numeric_limits<R>::min() * 4)) return true;
        int ex; std::frexp(p, &ex);
        ld ulp = std::ldexp((ld)1, ex - std::numeric_limits<R>::digits);
        if (std::fabs((ld)got - p) > (n + 1) * ulp + 4 * std::ldexp(std::fabs(p), -63)) { why = "int_pow"; return false; }
        return true;
    }
};

template <typename U, typename R, int K, bool Enable>
struct PowStep {
    static void run(R, R &, bool &) {}
    static void fact(long) {}
};
template <typename U, typename R, int K>
struct PowStep<U, R, K, true> {
    static void run(R x, R &got, bool &did) { got = raw_of(au::int_pow<K>(au::make_quantity<U>(x))); did = true; }
    static void fact(long id) { char op[16]; snprintf(op, 16, "int_pow<%d>", K); result_fact<decltype(au::int_pow<K>(std::declval<au::Quantity<U, R>>()))>(id, op); }
};

// sqrt / cbrt: the std function applied to the stored value, in the type the std function returns for that argument type
// (R for floating R, double for integral R)
template <typename U, typename R>
struct Roots {
    using S = decltype(std::sqrt(std::declval<R>()));
    using Cb = decltype(std::cbrt(std::declval<R>()));
    static void fact(long id) {
        result_fact<decltype(au::sqrt(std::declval<au::Quantity<U, R>>()))>(id, "sqrt");
        result_fact<decltype(au::cbrt(std::declval<au::Quantity<U, R>>()))>(id, "cbrt");
    }
    template <typename A, typename B>
    static bool same(A a, B b) { return std::is_same<A, B>::value && (vfw::same_value(a, (A)b) || (a != a && b != b)); }
    static void run(R x) {
        auto qs = au::sqrt(au::make_quantity<U>(R{1})); auto qc = au::cbrt(au::make_quantity<U>(R{1}));
        decltype(raw_of(qs)) s{}; decltype(raw_of(qc)) c{};
        VF_PHASE(vf::PH_OPERATION) { s = raw_of(au::sqrt(au::make_quantity<U>(x))); c = raw_of(au::cbrt(au::make_quantity<U>(x))); }
        g_st.evals += 2;
        const S ws = std::sqrt(x); const Cb wc = std::cbrt(x);
        if (!std::is_same<decltype(s), S>::value) mismatch("sqrt result rep", x, x, s, ws);
        else if (!same(s, ws)) mismatch("sqrt", x, x, s, ws);
        if (!std::is_same<decltype(c), Cb>::value) mismatch("cbrt result rep", x, x, c, wc);
        else if (!same(c, wc)) mismatch("cbrt", x, x, c, wc);
    }
};

template <typename U, typename R>
__attribute__((noinline)) void run_powers(long id, const char *desc, u64 nrandom, u64 seed) {
    constexpr bool F = std::is_floating_point<R>::value;
    PowStep<U, R, 0, true>::fact(id); PowStep<U, R, 1, true>::fact(id); PowStep<U, R, 2, true>::fact(id); PowStep<U, R, 3, true>::fact(id); PowStep<U, R, 4, true>::fact(id);
    PowStep<U, R, -1, F>::fact(id); PowStep<U, R, -2, F>::fact(id); PowStep<U, R, -3, F>::fact(id); PowStep<U, R, -4, F>::fact(id);
    Roots<U, R>::fact(id);
    g_st.clear();
    vf::g_inst = id;
    static std::vector<R> vals;
    vals = vfw::operands<R>(nrandom, seed, std::is_floating_point<R>{});
    static const R *pv;
    pv = vals.data();
    vf::run_loop(0, vals.size(), [&](u64 i) {
        const R x = vf::launder(pv[i]);
        { u64 b = 0; memcpy(&b, &x, sizeof(R) < 8 ? sizeof(R) : 8); vf::g_aux0 = b; }
        // integral reps: only call when the exact power fits the promoted type (otherwise the raw product is UB)
#define VF_POW(K, EN)                                                                       \
        do {                                                                                \
            bool safe = true;                                                               \
            if (!F) { i128 p = 1; for (int j = 0; j < (K < 0 ? -K : K); ++j) { if (std::fabs((ld)p * (ld)x) > 1e37L) { safe = false; break; } p *= (i128)x; if (p > (i128)std::numeric_limits<R>::max() || p < (i128)std::numeric_limits<R>::lowest()) { safe = false; break; } } } \
            if (safe) {                                                                     \
                R got{}; bool did = false; const char *why = "";                            \
                VF_PHASE(vf::PH_OPERATION) { PowStep<U, R, K, EN>::run(x, got, did); }       \
                if (did) { g_st.evals++; if (!PowOracle<R>::template judge<K>(x, got, why)) mismatch("int_pow<" #K ">", x, x, got, got); } \
            } else g_st.skipped++;                                                          \
        } while (0)
        VF_POW(0, true); VF_POW(1, true); VF_POW(2, true); VF_POW(3, true); VF_POW(4, true);
        VF_POW(-1, F); VF_POW(-2, F); VF_POW(-3, F); VF_POW(-4, F);
#undef VF_POW
        Roots<U, R>::run(x);
    });
    dump("ppow", id, desc);
}

}  // namespace vfp
#endif
