// Plane A harness for C17: std::chrono durations round-trip through quantities unchanged.
#ifndef VF_CHRONO_HH
#define VF_CHRONO_HH

#include <chrono>
#include <cmath>
#include <ratio>
#include <vector>

#include "au/au.hh"
#include "vf_monitor.hh"
#include "vf_reify.hh"
#include "vf_wrapper.hh"

namespace vfc17 {
using u64 = uint64_t;
using i128 = __int128;

struct Stats {
    u64 evals, skipped_overflow, mm;
    struct W { const char *what; char a[40], b[40]; } wit[12];
    int nwit;
    void clear() { memset(this, 0, sizeof(*this)); }
};
static Stats g_st;
template <typename A, typename B>
void mismatch(const char *what, A a, B b) {
    g_st.mm++;
    if (g_st.nwit < 12) { auto &w = g_st.wit[g_st.nwit++]; w.what = what; vfw::fmt(w.a, a, std::is_floating_point<A>{}); vfw::fmt(w.b, b, std::is_floating_point<B>{}); }
}
inline void dump(const char *ev, long id, const char *desc) {
    printf("{\"ev\":\"%s\",\"id\":%ld,\"desc\":\"%s\",\"evals\":%llu,\"skipped_overflow\":%llu,\"mm\":%llu,\"wit\":[", ev, id, desc, (unsigned long long)g_st.evals,
           (unsigned long long)g_st.skipped_overflow, (unsigned long long)g_st.mm);
    for (int i = 0; i < g_st.nwit; ++i) printf("%s{\"what\":\"%s\",\"a\":\"%s\",\"b\":\"%s\"}", i ? "," : "", g_st.wit[i].what, g_st.wit[i].a, g_st.wit[i].b);
    printf("]}\n");
}

template <typename R>
std::vector<R> counts(u64 nrandom, u64 seed) {
    std::vector<R> v = vfw::operands<R>(nrandom, seed, std::is_floating_point<R>{});
    return v;
}

// ---- single duration type: as_quantity / implicit back-conversion / as_chrono_duration ----------------
template <typename D>
__attribute__((noinline)) void run_roundtrip(long id, const char *desc, u64 nrandom, u64 seed) {
    using R = typename D::rep;
    using P = typename D::period;
    using Q = decltype(au::as_quantity(std::declval<D>()));
    g_st.clear();
    vf::g_inst = id;
    // static facts: rep, unit, reduced period
    using Back = decltype(au::as_chrono_duration(std::declval<Q>()));
    printf("{\"ev\":\"dfacts\",\"id\":%ld,\"desc\":\"%s\",\"rep_same\":%d,\"back_rep_same\":%d,\"back_period_is_reduced\":%d,\"num\":%lld,\"den\":%lld,", id, desc,
           (int)std::is_same<typename Q::Rep, R>::value, (int)std::is_same<typename Back::rep, R>::value,
           (int)std::is_same<typename Back::period, typename P::type>::value, (long long)P::type::num, (long long)P::type::den);
    vfy::unit_core<typename Q::Unit>();
    printf("}\n");
    static std::vector<R> vals;
    vals = counts<R>(nrandom, seed);
    static const R *pv;
    pv = vals.data();
    vf::run_loop(0, vals.size(), [&](u64 i) {
        const R x = vf::launder(pv[i]);
        { u64 b = 0; memcpy(&b, &x, sizeof(R) < 8 ? sizeof(R) : 8); vf::g_aux0 = b; }
        const D d{x};
        R qv{}; R c_impl{}, c_fn{}, c_ctor{};
        VF_PHASE(vf::PH_OPERATION) {
            Q q = au::as_quantity(d);
            qv = q.in(typename Q::Unit{});
            D back = q;                       // implicit conversion back
            c_impl = back.count();
            c_fn = au::as_chrono_duration(q).count();
            Q q2 = d;                         // implicit construction of the quantity from the duration
            c_ctor = q2.in(typename Q::Unit{});
        }
        // every value category of the duration: non-const / const lvalue, prvalue, xvalue, const xvalue
        R vc[5] = {};
        VF_PHASE(vf::PH_OPERATION) {
            D m{x};
            vc[0] = au::as_quantity(m).in(typename Q::Unit{});
            vc[1] = au::as_quantity(D{x}).in(typename Q::Unit{});
            vc[2] = au::as_quantity(std::move(m)).in(typename Q::Unit{});
            vc[3] = au::as_quantity(std::move(d)).in(typename Q::Unit{});   // d is const: a const rvalue
            Q q3 = std::move(d);
            vc[4] = q3.in(typename Q::Unit{});
        }
        g_st.evals += 5;
        for (int k = 0; k < 5; ++k) if (!vfw::Bits<R>::same(vc[k], x)) mismatch("as_quantity(value category)", x, vc[k]);
        g_st.evals += 4;
        if (!vfw::Bits<R>::same(qv, x)) mismatch("as_quantity_count", x, qv);
        if (!vfw::Bits<R>::same(c_impl, x)) mismatch("implicit_back", x, c_impl);
        if (!vfw::Bits<R>::same(c_fn, x)) mismatch("as_chrono_duration", x, c_fn);
        if (!vfw::Bits<R>::same(c_ctor, x)) mismatch("implicit_from_duration", x, c_ctor);
    });
    dump("droundtrip", id, desc);
}

// ---- mixed duration / quantity operations vs chrono's own ------------------------------------------------
template <typename T>
bool fits(i128 v) { return v >= (i128)std::numeric_limits<T>::lowest() && v <= (i128)std::numeric_limits<T>::max(); }

template <typename D1, typename D2, bool Int = std::is_integral<typename D1::rep>::value && std::is_integral<typename D2::rep>::value>
struct ChronoSafe {
    // chrono converts both operands to common_type<D1,D2> = duration<CR, gcd period>; counts are multiplied by integer factors
    using CD = std::common_type_t<D1, D2>;
    using CR = typename CD::rep;
    using F1 = std::ratio_divide<typename D1::period, typename CD::period>;
    using F2 = std::ratio_divide<typename D2::period, typename CD::period>;
    static bool ok(typename D1::rep a, typename D2::rep b, bool sum) {
        i128 A = (i128)a * F1::num, B = (i128)b * F2::num;  // F::den == 1 by construction of the common period
        if (!fits<CR>(A) || !fits<CR>(B)) return false;
        if (sum && (!fits<CR>(A + B) || !fits<CR>(A - B) || !fits<CR>(B - A))) return false;
        // intermediate (intmax_t) arithmetic inside duration_cast
        return fits<intmax_t>((i128)a * F1::num) && fits<intmax_t>((i128)b * F2::num);
    }
};
template <typename D1, typename D2>
struct ChronoSafe<D1, D2, false> {
    static bool ok(typename D1::rep a, typename D2::rep b, bool) { return std::isfinite((long double)a) && std::isfinite((long double)b); }
};

template <typename D1, typename D2>
__attribute__((noinline)) void run_mixed(long id, const char *desc, u64 nrandom, u64 seed) {
    using R1 = typename D1::rep;
    using R2 = typename D2::rep;
    using Q2 = decltype(au::as_quantity(std::declval<D2>()));
    constexpr bool floating = std::is_floating_point<std::common_type_t<R1, R2>>::value;
    g_st.clear();
    vf::g_inst = id;
    static std::vector<R1> va; static std::vector<R2> vb;
    va = counts<R1>(nrandom, seed); vb = counts<R2>(nrandom, seed + 1);
    const size_t nb = vb.size();
    static const R1 *pa; static const R2 *pb;
    pa = va.data(); pb = vb.data();
    vf::run_loop(0, va.size() * 8, [&](u64 idx) {
        const R1 a = vf::launder(pa[idx / 8]);
        const R2 b = vf::launder(pb[((idx / 8) * 13 + (idx % 8) * 29 + 5) % nb]);
        { u64 x = 0, y = 0; memcpy(&x, &a, sizeof(R1) < 8 ? sizeof(R1) : 8); memcpy(&y, &b, sizeof(R2) < 8 ? sizeof(R2) : 8); vf::g_aux0 = x; vf::g_aux1 = y; }
        if (!ChronoSafe<D1, D2>::ok(a, b, true)) { g_st.skipped_overflow++; return; }
        const D1 d1{a};
        const D2 d2{b};
        const Q2 q2 = au::as_quantity(d2);
        // chrono's own answers
        const bool ceq = d1 == d2, cne = d1 != d2, clt = d1 < d2, cle = d1 <= d2, cgt = d1 > d2, cge = d1 >= d2;
        bool eq = false, ne = false, lt = false, le = false, gt = false, ge = false, req = false, rlt = false, rgt = false;
        VF_PHASE(vf::PH_OPERATION) {
            eq = d1 == q2; ne = d1 != q2; lt = d1 < q2; le = d1 <= q2; gt = d1 > q2; ge = d1 >= q2;
            req = q2 == d1; rlt = q2 < d1; rgt = q2 > d1;
        }
        g_st.evals += 9;
        if (floating && (a != a || b != b)) return;
        if (eq != ceq) mismatch("==", a, b);
        if (ne != cne) mismatch("!=", a, b);
        if (lt != clt) mismatch("<", a, b);
        if (le != cle) mismatch("<=", a, b);
        if (gt != cgt) mismatch(">", a, b);
        if (ge != cge) mismatch(">=", a, b);
        if (req != ceq || rlt != cgt || rgt != clt) mismatch("reversed-compare", a, b);
        if (!floating) {
            // sums and differences: same duration as chrono computes (compared as durations, by chrono's ==)
            const auto csum = d1 + d2;
            const auto cdif = d1 - d2;
            bool s_ok = false, d_ok = false, s2_ok = false, d2_ok = false;
            VF_PHASE(vf::PH_OPERATION) {
                auto s = d1 + q2; auto df = d1 - q2; auto s2 = q2 + d1; auto df2 = q2 - d1;
                s_ok = (au::as_chrono_duration(s) == csum);
                d_ok = (au::as_chrono_duration(df) == cdif);
                s2_ok = (au::as_chrono_duration(s2) == csum);
                d2_ok = (au::as_chrono_duration(df2) == -cdif);
            }
            g_st.evals += 4;
            if (!s_ok) mismatch("+", a, b);
            if (!d_ok) mismatch("-", a, b);
            if (!s2_ok) mismatch("q+d", a, b);
            if (!d2_ok) mismatch("q-d", a, b);
        }
    });
    dump("dmixed", id, desc);
}

// where the duration is accepted, the value it is converted to is the value its corresponding quantity is converted to (bitwise)
template <typename D, typename QTarget, bool Ok = std::is_convertible<D, QTarget>::value && std::is_convertible<au::CorrespondingQuantityT<D>, QTarget>::value>
struct AcceptValue { static void run(long, const char *, const char *) {} };
template <typename D, typename QTarget>
struct AcceptValue<D, QTarget, true> {
    static void run(long id, const char *desc, const char *target) {
        using Rep = typename D::rep;
        vf::Rng r(id * 7919u + 13);
        unsigned long long n = 0, mm = 0; char wit[96] = "";
        for (int i = 0; i < 400; ++i) {
            Rep c;
            if (std::is_floating_point<Rep>::value) c = (Rep)((long double)((long long)(r.next() % 2000001) - 1000000) / 7919.0L * (i % 3 == 0 ? 1.0L : 1e-3L));
            else { long long t = (long long)(r.next() % 4001) - 2000; if (!std::is_signed<Rep>::value && t < 0) t = -t; if (sizeof(Rep) == 1) t %= 100; c = (Rep)t; }  // (|count| <= 2000: inside the policy's overflow-free band)
            const D d{vf::launder(c)};
            QTarget a{}, b{};
            vf::g_inst = id;
            VF_PHASE(vf::PH_OPERATION) { QTarget a2 = d; QTarget b2 = au::as_quantity(d); a = a2; b = b2; }
            auto x = a.in(typename QTarget::Unit{}); auto y = b.in(typename QTarget::Unit{});
            ++n;
            if (memcmp(&x, &y, sizeof(x)) != 0 && !(x != x && y != y)) { if (!mm) snprintf(wit, sizeof wit, "%.21Lg", (long double)c); ++mm; }
        }
        printf("{\"ev\":\"dacceptval\",\"id\":%ld,\"desc\":\"%s\",\"target\":\"%s\",\"evals\":%llu,\"mm\":%llu,\"count\":\"%s\"}\n", id, desc, target, n, mm, wit);
    }
};

// ---- implicit acceptance: duration -> quantity type  <=>  corresponding quantity -> quantity type ------------
template <typename D, typename QTarget>
void accept_fact(long id, const char *desc, const char *target) {
    using CQ = au::CorrespondingQuantityT<D>;
    AcceptValue<D, QTarget>::run(id, desc, target);
    printf("{\"ev\":\"daccept\",\"id\":%ld,\"desc\":\"%s\",\"target\":\"%s\",\"duration_convertible\":%d,\"quantity_convertible\":%d}\n", id, desc, target,
           (int)std::is_convertible<D, QTarget>::value, (int)std::is_convertible<CQ, QTarget>::value);
    // the same question for every cv/ref form of the duration type must have the same answer
    const bool forms[5] = {std::is_convertible<const D, QTarget>::value, std::is_convertible<D &, QTarget>::value, std::is_convertible<const D &, QTarget>::value,
                           std::is_convertible<D &&, QTarget>::value, std::is_convertible<const D &&, QTarget>::value};
    const char *names[5] = {"const D", "D&", "const D&", "D&&", "const D&&"};
    for (int k = 0; k < 5; ++k)
        printf("{\"ev\":\"daccept\",\"id\":%ld,\"desc\":\"%s (%s)\",\"target\":\"%s\",\"duration_convertible\":%d,\"quantity_convertible\":%d}\n", id, desc, names[k], target,
               (int)forms[k], (int)std::is_convertible<CQ, QTarget>::value);
}

}  // namespace vfc17
#endif
