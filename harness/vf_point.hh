// Plane A harness for C09: QuantityPoint affine semantics.
#ifndef VF_POINT_HH
#define VF_POINT_HH

#include <cmath>
#include <vector>
#if defined(__cpp_impl_three_way_comparison) && __cpp_impl_three_way_comparison >= 201907L
#include <compare>
#define VF9_SPACESHIP 1
#else
#define VF9_SPACESHIP 0
#endif

#include "au/au.hh"
#include "vf_monitor.hh"
#include "vf_wrapper.hh"

namespace vfp9 {
using u64 = uint64_t;
using i128 = __int128;
typedef long double ld;

struct Stats {
    u64 evals, judged, skipped, mm;
    struct W { const char *op; char a[40], b[40], got[40], want[40]; } wit[16];
    int nwit;
    void clear() { memset(this, 0, sizeof(*this)); }
};
static Stats g_st;
template <typename A, typename B, typename G, typename Wt>
void mismatch(const char *op, A a, B b, G got, Wt want) {
    g_st.mm++;
    if (g_st.nwit < 16) {
        auto &w = g_st.wit[g_st.nwit++]; w.op = op;
        vfw::fmt(w.a, a, std::is_floating_point<A>{}); vfw::fmt(w.b, b, std::is_floating_point<B>{});
        vfw::fmt(w.got, got, std::is_floating_point<G>{}); vfw::fmt(w.want, want, std::is_floating_point<Wt>{});
    }
}
inline void dump(const char *ev, long id, const char *desc) {
    printf("{\"ev\":\"%s\",\"id\":%ld,\"desc\":\"%s\",\"evals\":%llu,\"judged\":%llu,\"skipped\":%llu,\"mm\":%llu,\"wit\":[", ev, id, desc, (unsigned long long)g_st.evals,
           (unsigned long long)g_st.judged, (unsigned long long)g_st.skipped, (unsigned long long)g_st.mm);
    for (int i = 0; i < g_st.nwit; ++i)
        printf("%s{\"op\":\"%s\",\"a\":\"%s\",\"b\":\"%s\",\"got\":\"%s\",\"want\":\"%s\"}", i ? "," : "", g_st.wit[i].op, g_st.wit[i].a, g_st.wit[i].b, g_st.wit[i].got, g_st.wit[i].want);
    printf("]}\n");
}

// Exact affine map  r = x * sn/sd + on/od   (target value of source value x); all parameters small integers.
struct Affine {
    long long sn, sd, on, od;
    bool exact_int(i128 x, i128 &r) const {
        i128 num = x * sn * od + (i128)on * sd, den = (i128)sd * od;
        if (num % den != 0) return false;
        r = num / den;
        return true;
    }
    ld approx(ld x) const { return x * (ld)sn / (ld)sd + (ld)on / (ld)od; }
};

template <typename R>
VF_NOSAN std::vector<R> window(const Affine &m, u64 nrandom, u64 seed, std::false_type) {
    std::vector<R> v;
    const i128 lo = std::numeric_limits<R>::lowest(), hi = std::numeric_limits<R>::max();
    // every integer in +-2^15 around zero and around the place where the target value is zero
    i128 c2 = (m.sn != 0) ? -((i128)m.on * m.sd) / ((i128)m.od * m.sn) : 0;
    for (i128 x = -32768; x <= 32768; ++x) { if (x >= lo && x <= hi) v.push_back((R)x); i128 y = c2 + x; if (y >= lo && y <= hi && (y < -32768 || y > 32768)) v.push_back((R)y); }
    (void)nrandom; (void)seed;
    return v;
}
template <typename R>
std::vector<R> window(const Affine &m, u64 nrandom, u64 seed, std::true_type) {
    std::vector<R> v = vfw::float_operands<R>(nrandom, seed);
    for (int x = -2000; x <= 2000; ++x) { v.push_back((R)x); v.push_back((R)(x + 0.5)); v.push_back((R)(x * 0.01)); }
    ld c2 = -((ld)m.on * m.sd) / ((ld)m.od * m.sn);
    for (int x = -200; x <= 200; ++x) v.push_back((R)(c2 + x));
    return v;
}

template <typename T>
ld ulp_of(ld e) {
    e = std::fabs(e);
    if (e == 0 || !std::isfinite(e)) return (ld)std::numeric_limits<T>::denorm_min();
    int ex; std::frexp(e, &ex);
    ld u = std::ldexp((ld)1, ex - std::numeric_limits<T>::digits);
    ld dm = (ld)std::numeric_limits<T>::denorm_min();
    return u < dm ? dm : u;
}

template <typename T, bool I = std::is_integral<T>::value>
struct Judge {  // integral target: exact
    // floating source, integral target: the value is computed in the floating common type and cast (truncation toward
    // zero); with e = the rounding error that computation may legitimately carry, got must lie between trunc(r-e), trunc(r+e)
    template <typename R>
    static void run_from_float(const char *op, R x, T got, const Affine &m) {
        if (!std::isfinite((ld)x)) { g_st.skipped++; return; }
        const ld r = m.approx((ld)x);
        const ld a = std::fabs((ld)x * (ld)m.sn / (ld)m.sd), b = std::fabs((ld)m.on / (ld)m.od);
        const ld big = std::max(std::max(a, b), std::max(std::fabs(r), std::fabs((ld)x)));
        if (big > std::ldexp((ld)1, std::numeric_limits<T>::digits - 10)) { g_st.skipped++; return; }
        const ld e = 8 * ulp_of<R>(big);
        const ld lo = std::trunc(r - e), hi = std::trunc(r + e);
        g_st.judged++;
        if ((ld)got < std::min(lo, hi) || (ld)got > std::max(lo, hi)) mismatch(op, x, x, got, (T)std::trunc(r));
    }
    template <typename R>
    static void run(const char *op, R x, T got, const Affine &m) {
        i128 r;
        if (!std::is_integral<R>::value) { run_from_float(op, x, got, m); return; }
        if (!m.exact_int((i128)x, r)) { g_st.skipped++; return; }  // true result not representable in an integral rep
        if (r < ((i128)std::numeric_limits<T>::lowest() >> 10) || r > ((i128)std::numeric_limits<T>::max() >> 10)) { g_st.skipped++; return; }
        g_st.judged++;
        if ((i128)got != r) mismatch(op, x, x, got, (T)r);
    }
};
template <typename T>
struct Judge<T, false> {
    template <typename R>
    static void run(const char *op, R x, T got, const Affine &m) {
        if (!std::isfinite((ld)x)) { g_st.skipped++; return; }
        ld r = m.approx((ld)x);
        ld a = std::fabs((ld)x * (ld)m.sn / (ld)m.sd), b = std::fabs((ld)m.on / (ld)m.od);
        ld big = std::max(std::max(a, b), std::max(std::fabs(r), std::fabs((ld)x)));
        if (big > (ld)std::numeric_limits<T>::max() / 1024) { g_st.skipped++; return; }
        using C = std::common_type_t<R, T>;
        // computed in the common type of the two reps (error relative to the largest term there), then cast to T once
        ld tol = 6 * ulp_of<typename std::conditional<std::is_floating_point<C>::value, C, T>::type>(big) + ulp_of<T>(r);
        g_st.judged++;
        if (!(std::fabs((ld)got - r) <= tol)) mismatch(op, x, x, got, (T)r);
    }
};

// Implicit (unit-only) forms exist only where the policy admits them; the generator decides and the compiler corrects.
template <typename SrcU, typename R, typename DstU, bool Implicit>
struct ImplicitForms {
    static void run(R, const Affine &) {}
};
template <typename SrcU, typename R, typename DstU>
struct ImplicitForms<SrcU, R, DstU, true> {
    static void run(R x, const Affine &m) {
        auto p = au::make_quantity_point<SrcU>(x);
        R a{}, b{};
        VF_PHASE(vf::PH_OPERATION) { a = p.in(DstU{}); b = p.as(DstU{}).in(DstU{}); }
        g_st.evals += 2;
        Judge<R>::run("in(unit)", x, a, m);
        Judge<R>::run("as(unit)", x, b, m);
    }
};

// The implicit converting constructor / assignment into a floating rep (always admitted by the policy) must give what as<T>(unit) gives.
template <typename SrcU, typename R, typename DstU, typename T, bool F = std::is_floating_point<T>::value>
struct ImplicitCtor {
    static void run(R, const Affine &) {}
};
template <typename SrcU, typename R, typename DstU, typename T>
struct ImplicitCtor<SrcU, R, DstU, T, true> {
    static void run(R x, const Affine &m) {
        auto p = au::make_quantity_point<SrcU>(x);
        T a{}, b{};
        VF_PHASE(vf::PH_OPERATION) {
            au::QuantityPoint<DstU, T> y = p;
            au::QuantityPoint<DstU, T> z = au::make_quantity_point<DstU>(T{});
            z = p;
            a = y.in(DstU{}); b = z.in(DstU{});
        }
        g_st.evals += 2;
        Judge<T>::run("implicit constructor", x, a, m);
        Judge<T>::run("implicit assignment", x, b, m);
    }
};

template <typename SrcU, typename R, typename DstU, typename T, bool Implicit>
__attribute__((noinline)) void run_convert(long id, const char *desc, long long sn, long long sd, long long on, long long od, u64 nrandom, u64 seed) {
    const Affine m{sn, sd, on, od};
    g_st.clear();
    vf::g_inst = id;
    static std::vector<R> vals;
    vals = window<R>(m, nrandom, seed, std::is_floating_point<R>{});
    static const R *pv;
    pv = vals.data();
    vf::run_loop(0, vals.size(), [&](u64 i) {
        const R x = vf::launder(pv[i]);
        { u64 b = 0; memcpy(&b, &x, sizeof(R) < 8 ? sizeof(R) : 8); vf::g_aux0 = b; }
        // domain: the property is about inputs whose true result (and the intermediate displacement) is representable
        if (!std::isfinite((ld)x)) { g_st.skipped++; return; }
        {
            const ld r_ = m.approx((ld)x);
            const ld big_ = std::max(std::max(std::fabs(r_), std::fabs((ld)x * (ld)m.sn / (ld)m.sd)), std::max(std::fabs((ld)m.on / (ld)m.od), std::fabs((ld)x)));
            const ld lim_ = std::is_integral<T>::value ? std::ldexp((ld)1, std::numeric_limits<T>::digits - 10) : (ld)std::numeric_limits<T>::max() / 1024;
            const ld limr_ = std::is_integral<R>::value ? std::ldexp((ld)1, std::numeric_limits<R>::digits - 10) : (ld)std::numeric_limits<R>::max() / 1024;
            // scaled intermediates may be formed in a finer common unit: keep 2^20 of extra head-room for integral reps
            const ld fine_ = (std::is_integral<T>::value || std::is_integral<R>::value) ? (ld)(1 << 20) * (ld)m.sd * (ld)m.od : 1;
            if (big_ * fine_ > lim_ || big_ * fine_ > limr_) { g_st.skipped++; return; }
            // an unsigned target can only represent a non-negative result (and non-negative intermediates)
            if (std::is_unsigned<T>::value && (r_ < 1 || (ld)x < 0 || (ld)x * (ld)m.sn / (ld)m.sd < 1)) { g_st.skipped++; return; }
        }
        auto p = au::make_quantity_point<SrcU>(x);
        T a{}, b{}, c{};
        R d{}, e{};
        VF_PHASE(vf::PH_OPERATION) {
            a = p.template coerce_in<T>(DstU{});
            b = p.template coerce_as<T>(DstU{}).in(DstU{});
            c = p.template as<T>(DstU{}).in(DstU{});
            d = p.coerce_in(DstU{});                 // the unit-only forcing forms keep the rep
            e = p.coerce_as(DstU{}).in(DstU{});
        }
        g_st.evals += 5;
        Judge<T>::run("coerce_in<T>", x, a, m);
        Judge<T>::run("coerce_as<T>", x, b, m);
        Judge<T>::run("as<T>", x, c, m);
        Judge<R>::run("coerce_in(unit)", x, d, m);
        Judge<R>::run("coerce_as(unit)", x, e, m);
        ImplicitForms<SrcU, R, DstU, Implicit>::run(x, m);
        ImplicitCtor<SrcU, R, DstU, T>::run(x, m);
    });
    dump("pconv", id, desc);
}

// Same-unit affine arithmetic and cross-unit ordering / displacement.
template <typename U1, typename U2, typename R, bool Mixed>
struct MixedOps {
    static void run(R, R, const Affine &) {}
};
template <typename U1, typename U2, typename R>
struct MixedOps<U1, U2, R, true> {
    // m maps a U1 point value to the U2 scale:  position(x in U1) == position(m(x) in U2)
    static void run(R x, R y, const Affine &m) {
        auto p = au::make_quantity_point<U1>(x);
        auto q = au::make_quantity_point<U2>(y);
        bool lt = false, eq = false, gt = false, le = false, ge = false, ne = false;
        VF_PHASE(vf::PH_OPERATION) { lt = p < q; eq = p == q; gt = p > q; le = p <= q; ge = p >= q; ne = p != q; }
        g_st.evals += 6;
        // exact comparison of x*sn/sd + on/od  vs  y
        int cmp;
        if (std::is_integral<R>::value) {
            i128 lhs = (i128)x * m.sn * m.od + (i128)m.on * m.sd, rhs = (i128)y * m.sd * m.od;
            if (m.sd * m.od < 0) { lhs = -lhs; rhs = -rhs; }
            cmp = lhs < rhs ? -1 : (lhs > rhs ? 1 : 0);
        } else {
            if (!std::isfinite((ld)x) || !std::isfinite((ld)y)) { g_st.skipped++; return; }
            ld l = m.approx((ld)x), r = (ld)y;
            ld tol = 16 * ulp_of<R>(std::max(std::max(std::fabs(l), std::fabs(r)), std::max(std::fabs((ld)x * m.sn / m.sd), std::fabs((ld)m.on / m.od))));
            if (std::fabs(l - r) <= tol) { g_st.skipped++; return; }
            cmp = l < r ? -1 : 1;
        }
        g_st.judged++;
        if (lt != (cmp < 0) || gt != (cmp > 0) || eq != (cmp == 0) || le != (cmp <= 0) || ge != (cmp >= 0) || ne != (cmp != 0)) mismatch("point compare", x, y, (int)lt, (int)(cmp < 0));
#if VF9_SPACESHIP
        { int s3 = 9; VF_PHASE(vf::PH_OPERATION) { auto c = (p <=> q); s3 = c < 0 ? -1 : (c > 0 ? 1 : (c == 0 ? 0 : 2)); } g_st.evals++; if (s3 != cmp) mismatch("point <=>", x, y, s3, cmp); }
#endif
        // min / max / clamp across units: the result sits at the absolute position of the lower / upper operand
        {
            const ld L = m.approx((ld)x), R_ = (ld)y;  // both positions on the U2 scale
            {
                // domain: everything the common (finer) point unit has to hold stays representable with head-room
                const ld big_ = std::max(std::max(std::fabs(L), std::fabs(R_)), std::max(std::fabs((ld)x), std::max(std::fabs((ld)x * m.sn / m.sd), std::fabs((ld)m.on / m.od))));
                const ld lim_ = std::is_integral<R>::value ? std::ldexp((ld)1, std::numeric_limits<R>::digits - 10) : (ld)std::numeric_limits<R>::max() / 1e9L;
                const ld fine_ = std::is_integral<R>::value ? (ld)(1 << 20) * std::fabs((ld)m.sd * (ld)m.od) : 1;
                if (!(big_ * fine_ < lim_)) { g_st.skipped++; return; }
            }
            ld mn = 0, mx = 0, cl = 0;
            VF_PHASE(vf::PH_OPERATION) {
                mn = min(p, q).template coerce_in<ld>(U2{}); mx = max(p, q).template coerce_in<ld>(U2{});
                cl = clamp(p, min(q, q), max(q, q)).template coerce_in<ld>(U2{});
            }
            g_st.evals += 3;
            // floating reps: the conversion to the common point unit adds an origin offset, so the error scales with the largest term
            const ld bigt = std::max(std::max(std::fabs(L), std::fabs(R_)), std::max(std::fabs((ld)x * m.sn / m.sd), std::fabs((ld)m.on / m.od)));
            const ld tol = (std::is_integral<R>::value ? 0 : 16 * ulp_of<R>(bigt)) + 64 * ulp_of<ld>(bigt);
            if (!(std::fabs(mn - std::min(L, R_)) <= tol)) mismatch("point min", x, y, mn, std::min(L, R_));
            if (!(std::fabs(mx - std::max(L, R_)) <= tol)) mismatch("point max", x, y, mx, std::max(L, R_));
            if (!(std::fabs(cl - R_) <= tol)) mismatch("point clamp", x, y, cl, R_);
        }
    }
};

template <typename U1, typename U2, typename R, bool Mixed>
__attribute__((noinline)) void run_arith(long id, const char *desc, long long sn, long long sd, long long on, long long od, u64 nrandom, u64 seed) {
    const Affine m{sn, sd, on, od};
    g_st.clear();
    vf::g_inst = id;
    static std::vector<R> vals;
    vals = window<R>(m, nrandom, seed, std::is_floating_point<R>{});
    static const R *pv; static size_t n;
    pv = vals.data(); n = vals.size();
    vf::run_loop(0, n, [&](u64 i) {
        const R x = vf::launder(pv[i]);
        const R y = vf::launder(pv[(i * 7919 + 13) % n]);
        { u64 b = 0, c = 0; memcpy(&b, &x, sizeof(R) < 8 ? sizeof(R) : 8); memcpy(&c, &y, sizeof(R) < 8 ? sizeof(R) : 8); vf::g_aux0 = b; vf::g_aux1 = c; }
        auto p = au::make_quantity_point<U1>(x), q = au::make_quantity_point<U1>(y);
        auto d = au::make_quantity<U1>(y);
        // same unit: p - q is the raw difference, p +- d shifts by exactly d
        bool safe = !std::is_integral<R>::value || (std::fabs((ld)x) < 1e9 && std::fabs((ld)y) < 1e9);
        if (safe) {
            decltype(x - y) df{}; decltype(x + y) up{}, dn{}, up2{};
            VF_PHASE(vf::PH_OPERATION) { df = (p - q).in(U1{}); up = (p + d).in(U1{}); dn = (p - d).in(U1{}); up2 = (d + p).in(U1{}); }
            g_st.evals += 4; g_st.judged += 4;
            if (!vfw::same_value(df, x - y)) mismatch("p-q", x, y, df, x - y);
            if (!vfw::same_value(up, x + y)) mismatch("p+d", x, y, up, x + y);
            if (!vfw::same_value(dn, x - y)) mismatch("p-d", x, y, dn, x - y);
            if (!vfw::same_value(up2, y + x)) mismatch("d+p", x, y, up2, y + x);
            bool lt = false, eq = false;
            VF_PHASE(vf::PH_OPERATION) { lt = p < q; eq = p == q; }
            if (lt != (x < y) || eq != (x == y)) mismatch("same-unit compare", x, y, (int)lt, (int)(x < y));
        }
        MixedOps<U1, U2, R, Mixed>::run(x, y, m);
        // partners within one unit of the mapped position (where a dropped fractional origin displacement or a truncated
        // conversion changes the answer)
        if (Mixed && std::is_integral<R>::value) {
            const ld pos = m.approx((ld)x);
            if (std::fabs(pos) < std::ldexp((ld)1, std::numeric_limits<R>::digits - 12)) {
                const long long y0 = (long long)std::floor(pos);
                for (long long dy = -1; dy <= 2; ++dy) MixedOps<U1, U2, R, Mixed>::run(x, (R)(y0 + dy), m);
            }
        }
    });
    dump("parith", id, desc);
}

// point +- quantity across units and reps: the result's absolute position must be the point's position shifted by exactly
// the displacement.  kn/kd = (quantity unit)/(point unit).  The position is read back as long double in the point's unit.
template <typename V>
std::vector<V> shift_values(u64 seed, std::true_type /*floating*/) {
    std::vector<V> v;
    for (int i = -40; i <= 40; ++i) { v.push_back((V)i); v.push_back((V)(i + 0.5)); v.push_back((V)(i * 0.3)); v.push_back((V)(i * 1000)); }
    vf::Rng r(seed); for (int i = 0; i < 200; ++i) v.push_back((V)((long long)(r.next() % 2000001) - 1000000) / (V)64);
    return v;
}
template <typename V>
VF_NOSAN std::vector<V> shift_values(u64 seed, std::false_type) {
    std::vector<V> v;
    for (long long i = -130; i <= 130; ++i) { if (i >= 0 || std::is_signed<V>::value) { v.push_back((V)i); if (sizeof(V) > 1) v.push_back((V)(i * 100)); } }
    if (sizeof(V) > 2) { vf::Rng r(seed); for (int i = 0; i < 200; ++i) { long long t = (long long)(r.next() % 60001) - 30000; if (t >= 0 || std::is_signed<V>::value) v.push_back((V)t); } }
    return v;
}
// `p += d` / `p -= d` with a displacement of another unit and rep: where the library offers it, the point must move by exactly
// that displacement (so an integral point cannot take a fractional one: either the statement does not compile or it is exact)
template <typename P, typename D, typename = void> struct CanPlusAssign : std::false_type {};
template <typename P, typename D> struct CanPlusAssign<P, D, decltype(void(std::declval<P &>() += std::declval<D>()))> : std::true_type {};
template <typename P, typename D, typename = void> struct CanMinusAssign : std::false_type {};
template <typename P, typename D> struct CanMinusAssign<P, D, decltype(void(std::declval<P &>() -= std::declval<D>()))> : std::true_type {};
template <typename P, typename D, bool Plus, bool Can> struct CompoundShift { static bool run(P &, D) { return false; } };
template <typename P, typename D> struct CompoundShift<P, D, true, true> { static bool run(P &p, D d) { p += d; return true; } };
template <typename P, typename D> struct CompoundShift<P, D, false, true> { static bool run(P &p, D d) { p -= d; return true; } };

template <typename PU, typename R1, typename QU, typename R2>
__attribute__((noinline)) void run_shift(long id, const char *desc, long long kn, long long kd, long long offn, long long offd, u64 nrandom, u64 seed) {
    using C = std::common_type_t<R1, R2>;
    g_st.clear();
    vf::g_inst = id;
    (void)nrandom;
    static std::vector<R1> xs; static std::vector<R2> ys;
    xs = shift_values<R1>(seed, std::is_floating_point<R1>{});
    ys = shift_values<R2>(seed + 7, std::is_floating_point<R2>{});
    // values whose scaling to the (finer) common unit leaves the operand's own rep but fits the common rep
    if (std::is_integral<R1>::value && (std::is_floating_point<C>::value || sizeof(C) > sizeof(R1))) {
        const ld fine = (ld)(kd > kn ? kd : kn) * (ld)kd;
        const ld t = (ld)std::numeric_limits<R1>::max() / fine;
        for (ld f : {1.0L, 1.5L, 3.0L, 0.75L}) { ld v = std::floor(t * f); if (v >= 1 && v <= (ld)std::numeric_limits<R1>::max()) xs.push_back((R1)v); }
    }
    if (std::is_integral<R2>::value && (std::is_floating_point<C>::value || sizeof(C) > sizeof(R2))) {
        const ld fine = (ld)(kd > kn ? kd : kn) * (ld)kn;
        const ld t = (ld)std::numeric_limits<R2>::max() / fine;
        for (ld f : {1.0L, 1.5L, 3.0L, 0.75L}) { ld v = std::floor(t * f); if (v >= 1 && v <= (ld)std::numeric_limits<R2>::max()) ys.push_back((R2)v); }
    }
    static const R1 *px; static const R2 *py; static size_t nx, ny;
    px = xs.data(); py = ys.data(); nx = xs.size(); ny = ys.size();
    const ld k = (ld)kn / (ld)kd;
    vf::run_loop(0, nx * 12, [&](u64 i) {
        const R1 x = vf::launder(px[i / 12]);
        const R2 y = vf::launder(py[((i / 12) * 31 + (i % 12) * 17 + 3) % ny]);
        { u64 b = 0, c = 0; memcpy(&b, &x, sizeof(R1) < 8 ? sizeof(R1) : 8); memcpy(&c, &y, sizeof(R2) < 8 ? sizeof(R2) : 8); vf::g_aux0 = b; vf::g_aux1 = c; }
        const ld X = (ld)x, Y = (ld)y * k;
        const ld big = std::max(std::max(std::fabs(X), std::fabs(Y)), std::max(std::fabs(X + Y), std::fabs(X - Y)));
        // domain: every value any reasonable implementation forms (operands and results in the common unit, which may be
        // finer by up to kd) is representable in the common rep with a 2^10 margin, and non-negative when that rep is unsigned
        const ld lim = std::is_integral<C>::value ? std::ldexp((ld)1, std::numeric_limits<C>::digits - 10) : (ld)std::numeric_limits<C>::max() / 1024;
        if (big * (ld)kd * (ld)(kn > kd ? kn : kd) > lim) { g_st.skipped++; return; }
        const bool uns = std::is_unsigned<C>::value;
        if (uns && (X < 0 || (ld)y < 0)) { g_st.skipped++; return; }
        auto p = au::make_quantity_point<PU>(x);
        auto d = au::make_quantity<QU>(y);
        const ld tol = (std::is_integral<C>::value ? 0 : 8 * ulp_of<C>(big)) + 4 * ulp_of<ld>(big) ;
        ld up = 0, up2 = 0, dn = 0;
        VF_PHASE(vf::PH_OPERATION) { up = (p + d).template coerce_in<ld>(PU{}); up2 = (d + p).template coerce_in<ld>(PU{}); }
        g_st.evals += 2; g_st.judged += 2;
        if (!(std::fabs(up - (X + Y)) <= tol)) mismatch("p+d (mixed)", x, y, up, X + Y);
        if (!(std::fabs(up2 - (X + Y)) <= tol)) mismatch("d+p (mixed)", x, y, up2, X + Y);
        if (!uns || X - Y >= 0) {
            VF_PHASE(vf::PH_OPERATION) { dn = (p - d).template coerce_in<ld>(PU{}); }
            g_st.evals++; g_st.judged++;
            if (!(std::fabs(dn - (X - Y)) <= tol)) mismatch("p-d (mixed)", x, y, dn, X - Y);
        }
        {   // compound forms (the result stays in the point's own unit and rep)
            using P = au::QuantityPoint<PU, R1>; using D = au::Quantity<QU, R2>;
            const ld limp = std::is_integral<R1>::value ? std::ldexp((ld)1, std::numeric_limits<R1>::digits - 10) : (ld)std::numeric_limits<R1>::max() / 1024;
            const ld tolp = (std::is_integral<R1>::value ? 0 : 8 * ulp_of<R1>(big)) + (std::is_integral<R1>::value && std::is_integral<R2>::value ? 0 : 4 * ulp_of<ld>(big));
            if (big * (ld)kd * (ld)(kn > kd ? kn : kd) <= limp && !(std::is_unsigned<R1>::value && (X < 0 || Y < 0 || X - Y < 0))) {
                P p1 = p, p2 = p; bool did1 = false, did2 = false;
                VF_PHASE(vf::PH_OPERATION) { did1 = CompoundShift<P, D, true, CanPlusAssign<P, D>::value>::run(p1, d); did2 = CompoundShift<P, D, false, CanMinusAssign<P, D>::value>::run(p2, d); }
                if (did1) { g_st.evals++; g_st.judged++; if (!(std::fabs((ld)p1.in(PU{}) - (X + Y)) <= tolp)) mismatch("p+=d (mixed)", x, y, (ld)p1.in(PU{}), X + Y); }
                if (did2) { g_st.evals++; g_st.judged++; if (!(std::fabs((ld)p2.in(PU{}) - (X - Y)) <= tolp)) mismatch("p-=d (mixed)", x, y, (ld)p2.in(PU{}), X - Y); }
            }
        }
        // the same two numbers as *points* of the two units and reps: ordering and displacement by absolute position
        {
            const ld off = (ld)offn / (ld)offd;          // position of QU's zero on the PU scale
            const ld Q = Y + off;                        // position of the second point on the PU scale
            const ld bigp = std::max(big, std::max(std::fabs(off), std::fabs(Q)));
            if (bigp * (ld)kd * (ld)(kn > kd ? kn : kd) * (ld)offd > lim || (uns && (Q < 0 || off < 0))) { g_st.skipped++; return; }
            auto p2 = au::make_quantity_point<QU>(y);
            const ld tolp = (std::is_integral<C>::value ? 0 : 16 * ulp_of<C>(bigp)) + 8 * ulp_of<ld>(bigp);
            bool lt = false, gt = false, eq = false; ld df = 0;
            bool le = false, ge = false, ne = false;
            VF_PHASE(vf::PH_OPERATION) { lt = p < p2; gt = p > p2; eq = p == p2; le = p <= p2; ge = p >= p2; ne = p != p2; }
            // (the displacement is a quantity of the common rep: with an unsigned one only a non-negative difference is in the domain)
            if (!uns || X >= Q) { VF_PHASE(vf::PH_OPERATION) { df = (p - p2).in(au::QuantityMaker<au::CommonUnitT<PU, QU>>{}) * 1.0L; } }
            g_st.evals += 7;
            if (ne == eq || le != (lt || eq) || ge != (gt || eq) || (lt && gt)) mismatch("point compare inconsistent (mixed reps)", x, y, (int)lt, (int)gt);
            if (std::fabs(X - Q) > 4 * tolp + (std::is_integral<C>::value ? 0 : 1e-12L * bigp)) {
                g_st.judged += 3;
                if (lt != (X < Q) || gt != (X > Q) || eq) mismatch("point compare (mixed reps)", x, y, (int)lt, (int)(X < Q));
            } else if (std::is_integral<C>::value && offd == 1 && kd == 1) {
                g_st.judged++;
                if (eq != (X == Q)) mismatch("point == (mixed reps)", x, y, (int)eq, (int)(X == Q));
            }
            (void)df;
        }
    });
    dump("parith", id, desc);
}

}  // namespace vfp9
#endif
