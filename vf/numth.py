"""Small independent number theory helpers (Python big ints): deterministic Miller-Rabin for
n < 3.3e24, Pollard rho factorisation.  Shares nothing with the library under test."""
import math
import random

_MR_BASES = (2, 3, 5, 7, 11, 13, 17, 19, 23, 29, 31, 37)
_SMALL = [p for p in range(2, 2000) if all(p % q for q in range(2, int(p ** 0.5) + 1))]


def is_prime(n):
    if n < 2:
        return False
    for p in _SMALL[:30]:
        if n % p == 0:
            return n == p
    d, s = n - 1, 0
    while d % 2 == 0:
        d //= 2
        s += 1
    for a in _MR_BASES:
        if a % n == 0:
            continue
        x = pow(a, d, n)
        if x in (1, n - 1):
            continue
        for _ in range(s - 1):
            x = x * x % n
            if x == n - 1:
                break
        else:
            return False
    return True


def _rho(n, rnd):
    if n % 2 == 0:
        return 2
    while True:
        c = rnd.randrange(1, n)
        x = y = rnd.randrange(0, n)
        d = 1
        while d == 1:
            x = (x * x + c) % n
            y = (y * y + c) % n
            y = (y * y + c) % n
            d = math.gcd(abs(x - y), n)
        if d != n:
            return d


def factor(n):
    """dict prime -> exponent"""
    assert n >= 1
    out = {}
    rnd = random.Random(12345)
    for p in _SMALL:
        if p * p > n:
            break
        while n % p == 0:
            out[p] = out.get(p, 0) + 1
            n //= p
    stack = [n] if n > 1 else []
    while stack:
        m = stack.pop()
        if m == 1:
            continue
        if is_prime(m):
            out[m] = out.get(m, 0) + 1
            continue
        d = _rho(m, rnd)
        stack += [d, m // d]
    return out


def mag_expr(n):
    """C++ spelling of an au magnitude equal to the positive integer n, as a product of prime
    powers (so the library never has to factor anything hard at compile time)."""
    if n == 1:
        return "au::mag<1>()"
    parts = []
    for p, k in sorted(factor(n).items()):
        parts.append(f"au::mag<{p}ull>()" if k == 1 else f"au::pow<{k}>(au::mag<{p}ull>())")
    return "(" + " * ".join(parts) + ")"


def max_prime_factor(n):
    return max(factor(n)) if n > 1 else 1
