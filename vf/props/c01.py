"""C01: dimension mismatches are rejected at compile time; same-dimension controls are accepted (Plane C)."""
from .. import ccmon, core, model, planeb

# (name, body, kind)  kind: 'q' quantity operands, 'p' point operands, 'int' needs integral reps, 'inv' inverse dimension semantics
OPS = [
    ("+", "auto r = a + b; (void)r;", "q"), ("-", "auto r = a - b; (void)r;", "q"), ("==", "bool r = (a == b); (void)r;", "q"),
    ("!=", "bool r = (a != b); (void)r;", "q"), ("<", "bool r = (a < b); (void)r;", "q"), ("<=", "bool r = (a <= b); (void)r;", "q"),
    (">", "bool r = (a > b); (void)r;", "q"), (">=", "bool r = (a >= b); (void)r;", "q"), ("%", "auto r = a % b; (void)r;", "int"),
    ("+=", "a += b;", "q"), ("-=", "a -= b;", "q"), ("<=>", "auto r = (a <=> b); (void)r;", "q20"),
    ("copy_init", "Q2 x = a; (void)x;", "q"), ("assign", "Q2 x{}; x = a; (void)x;", "q"), ("explicit", "Q2 x{a}; (void)x;", "q"),
    ("as", "auto r = a.as(U2{}); (void)r;", "q"), ("in", "auto r = a.in(U2{}); (void)r;", "q"), ("as<T>", "auto r = a.as<double>(U2{}); (void)r;", "q"),
    ("coerce_as", "auto r = a.coerce_as(U2{}); (void)r;", "q"), ("coerce_in", "auto r = a.coerce_in(U2{}); (void)r;", "q"),
    ("coerce_in<T>", "auto r = a.coerce_in<float>(U2{}); (void)r;", "q"), ("data_in", "auto &r = a.data_in(U2{}); (void)r;", "equiv"),
    ("min", "auto r = min(a, b); (void)r;", "q"), ("max", "auto r = max(a, b); (void)r;", "q"), ("clamp", "auto r = clamp(a, b, b); (void)r;", "q"),
    ("hypot", "auto r = hypot(a, b); (void)r;", "q"), ("fmod", "auto r = fmod(a, b); (void)r;", "q"), ("remainder", "auto r = remainder(a, b); (void)r;", "q"),
    ("arctan2", "auto r = arctan2(a, b); (void)r;", "q"), ("inverse_as", "auto r = inverse_as(U2{}, a); (void)r;", "inv"),
    ("inverse_in", "auto r = inverse_in(U2{}, a); (void)r;", "inv"), ("round_as", "auto r = round_as(U2{}, a); (void)r;", "q"),
    ("floor_in", "auto r = floor_in(U2{}, a); (void)r;", "q"), ("ceil_as", "auto r = ceil_as(U2{}, a); (void)r;", "q"),
    ("round_in<T>", "auto r = round_in<int>(U2{}, a); (void)r;", "q"),
    ("will_conversion_overflow", "bool r = will_conversion_overflow(a, U2{}); (void)r;", "q"), ("is_conversion_lossy", "bool r = is_conversion_lossy(a, U2{}); (void)r;", "q"),
    ("common_type_use", "std::common_type_t<Q1, Q2> x{}; (void)x;", "q"),
    ("pt-", "auto r = pa - pb; (void)r;", "p"), ("pt==", "bool r = (pa == pb); (void)r;", "p"), ("pt<", "bool r = (pa < pb); (void)r;", "p"),
    ("pt>=", "bool r = (pa >= pb); (void)r;", "p"), ("pt_copy_init", "P2 x = pa; (void)x;", "p"), ("pt_as", "auto r = pa.as(U2{}); (void)r;", "p"),
    ("pt_in", "auto r = pa.in(U2{}); (void)r;", "p"), ("pt_coerce_as", "auto r = pa.coerce_as(U2{}); (void)r;", "p"), ("pt+q", "auto r = pa + b; (void)r;", "p"),
    ("pt-q", "auto r = pa - b; (void)r;", "p"), ("pt+=q", "pa += b;", "p"), ("pt_min", "auto r = min(pa, pb); (void)r;", "p"), ("pt_clamp", "auto r = clamp(pa, pb, pb); (void)r;", "p"),
]
TRAITS = [
    ("trait_quantity", 'static_assert(!std::is_convertible<Q1, Q2>::value && !std::is_constructible<Q2, Q1>::value && !std::is_assignable<Q2 &, Q1>::value && !VfHasCommon<Q1, Q2>::value, "vf");'),
    ("trait_point", 'static_assert(!std::is_convertible<P1, P2>::value && !std::is_constructible<P2, P1>::value && !std::is_convertible<P2, P1>::value, "vf");'),
    # (std::common_type of points: the library documents none for *same*-dimension points either, so only "asking about a mismatch is not a hard error and the answer is no" is demanded)
    ("trait_point_common", 'static_assert(!VfHasCommon<P1, P2>::value && !VfHasCommon<P2, P1>::value && !std::is_assignable<P2 &, P1>::value, "vf");'),
    # the variadic spellings of the dimension question, with the odd one out in every position
    ("trait_has_same_dimension", 'using U1b = decltype(U1{} * mag<2>()); static_assert(!has_same_dimension(U1{}, U2{}) && !has_same_dimension(U1{}, U1b{}, U2{}) && !has_same_dimension(U2{}, U1{}, U1b{}) && !has_same_dimension(U1{}, U2{}, U1b{}) '
                                 '&& !HasSameDimension<U1, U1b, U1, U2>::value && !HasSameDimension<U1, U1b, U2, U2>::value && !HasSameDimension<U1, U1, U2, U2, U1>::value && has_same_dimension(U1{}, U1b{}, U1{}) && HasSameDimension<U1, U1b, U1b, U1>::value, "vf");'),
]
# an equivalent type from outside the library (std::chrono::duration corresponds to a quantity of time): asked about a quantity of
# another dimension, the answer is no - in traits and in overload resolution - without a hard error
CHRONO_TRAIT = ('static_assert(!std::is_convertible<std::chrono::milliseconds, Q1>::value && !std::is_constructible<Q1, std::chrono::duration<double>>::value && !std::is_assignable<Q1 &, std::chrono::hours>::value '
                '&& !VfHasCommon<std::chrono::seconds, Q1>::value && sizeof(VfPick<Q1>::f(std::chrono::seconds{3})) == sizeof(char), "vf");')
CHRONO_CONTROL = 'static_assert(std::is_convertible<std::chrono::seconds, au::Quantity<au::Seconds, double>>::value && std::is_constructible<au::Quantity<au::Milli<au::Seconds>, double>, std::chrono::duration<double>>::value, "vf");'
TRAITS_CONTROL = [
    ("trait_quantity", 'static_assert(std::is_convertible<Q1, Q2>::value && std::is_constructible<Q2, Q1>::value && VfHasCommon<Q1, Q2>::value, "vf");'),
    ("trait_point", 'static_assert(std::is_convertible<P1, P2>::value && std::is_constructible<P2, P1>::value, "vf");'),
]

PRE_TMPL = r'''
#include "au/au.hh"
%s
#include <chrono>
#include <cstdint>
#include <type_traits>
#include <utility>
template <typename Q> struct VfPick { static int f(Q); static char f(std::chrono::nanoseconds); };
struct VfAcre : decltype(au::squared(au::Feet{}) * au::mag<43560>()) {};
template <typename A, typename B, typename = void> struct VfHasCommon : std::false_type {};
template <typename A, typename B> struct VfHasCommon<A, B, decltype(void(std::declval<std::common_type_t<A, B>>()))> : std::true_type {};
// user-defined units of different dimensions that each carry a non-zero origin (so every origin comparison the library might form is between unlike quantities)
struct VfDeck : au::Meters { static constexpr auto origin() { return au::meters(120); } };
struct VfEpoch : au::Seconds { static constexpr auto origin() { return au::milli(au::seconds)(1500); } };
struct VfGauge : au::Pascals { static constexpr auto origin() { return au::pascals(101325); } };
'''

REPS = ["double", "float", "int", "int64_t", "uint8_t", "int16_t", "uint32_t", "long double"]


def probe_text(pid, u1, u2, r1, r2, body):
    return (f"void vf_p{pid}() {{ using namespace au; using U1 = {u1}; using U2 = {u2}; using Q1 = Quantity<U1, {r1}>; using Q2 = Quantity<U2, {r2}>; "
            f"using P1 = QuantityPoint<U1, {r1}>; using P2 = QuantityPoint<U2, {r2}>; Q1 a{{}}; Q2 b{{}}; P1 pa{{}}; P2 pb{{}}; (void)a; (void)b; (void)pa; (void)pb; {body} }}")


def run(chk, which="C01"):
    tier = chk.tier
    units = {u.type: u for u in model.scan_units()}
    lf = planeb.leaf_table(units)
    leaves = {k: (v[0], v[1]) for k, v in lf.items()}
    rnd = core.rng("c01", tier)
    names = sorted(units)
    # candidate unit expressions: library units + generated compound / scaled / powered units
    cands = [(("leaf", n), f"au::{n}") for n in names]
    n_gen = 40 if tier == "quick" else 150
    while len(cands) < len(names) + n_gen:
        t = model.gen_tree(rnd, names, rnd.choice([1, 2, 2, 3]))
        if model.count_leaves(t) > 5 or model.has_ordering_tie(t, leaves) or not model.max_exp_ok(model.ev(t, leaves)):
            continue
        cands.append((t, f"decltype({model.spell(t, 'unit', units)})"))
    evs = [(t, s, model.ev(t, leaves)) for t, s in cands]
    by_dim = {}
    for t, s, e in evs:
        by_dim.setdefault(model.ekey(e.dim), []).append((t, s, e))
    dims = sorted(by_dim)
    time_dim = model.ekey(leaves["Seconds"][0])
    # mismatching ordered pairs: every unordered pair of distinct dimension classes (one representative each, both orientations) in thorough;
    # a seeded sample in quick
    pairs = []
    for i, d1 in enumerate(dims):
        for d2 in dims[i + 1:]:
            pairs.append((d1, d2))
    rnd.shuffle(pairs)
    npairs = 70 if tier == "quick" else min(len(pairs), 260)
    probes = []
    pid = 1
    stats = {"mismatch_pairs": 0, "control_pairs": 0, "dimension_classes": len(dims)}
    for d1, d2 in pairs[:npairs]:
        x, y = rnd.choice(by_dim[d1]), rnd.choice(by_dim[d2])
        if rnd.random() < 0.5:
            x, y = y, x
        (t1, s1, e1), (t2, s2, e2) = x, y
        if model.has_ordering_tie(("mul", t1, t2), leaves):
            continue  # CommonUnit of the pair would hit the documented ordering limitation before the dimension check
        stats["mismatch_pairs"] += 1
        inv_ok = model.ekey(model.einv(e1.dim)) != model.ekey(e2.dim)
        key = ("mm", s1, s2)
        for name, body, kind in OPS:
            if kind == "inv" and not inv_ok:
                continue
            if kind == "q20":
                continue
            r1, r2 = (rnd.choice(["int", "int64_t", "uint32_t"]),) * 2 if kind == "int" else (rnd.choice(REPS), rnd.choice(REPS))
            if kind == "int":
                r2 = rnd.choice(["int", "int64_t", "int16_t"])
            probes.append({"id": pid, "op": name, "u1": s1, "u2": s2, "expect": "reject", "control": False, "dedup_key": key, "cpp20": False,
                           "text": probe_text(pid, s1, s2, r1, r2, body)})
            pid += 1
        probes.append({"id": pid, "op": "<=>", "u1": s1, "u2": s2, "expect": "reject", "control": False, "dedup_key": key, "cpp20": True,
                       "text": probe_text(pid, s1, s2, "double", "int", "auto r = (a <=> b); (void)r;")})
        pid += 1
        for name, text in TRAITS:
            probes.append({"id": pid, "op": name, "u1": s1, "u2": s2, "expect": "accept", "control": False, "dedup_key": key, "cpp20": False,
                           "text": probe_text(pid, s1, s2, rnd.choice(REPS), rnd.choice(REPS), text)})
            pid += 1
        if model.ekey(e1.dim) != time_dim:
            probes.append({"id": pid, "op": "trait_chrono", "u1": s1, "u2": "std::chrono::duration", "expect": "accept", "control": False, "dedup_key": key, "cpp20": False,
                           "text": probe_text(pid, s1, s2, rnd.choice(REPS), "double", CHRONO_TRAIT)})
            pid += 1
    probes.append({"id": pid, "op": "trait_chrono", "u1": "au::Seconds", "u2": "std::chrono::duration", "expect": "accept", "control": True, "dedup_key": ("ctl", "chrono"), "cpp20": False,
                   "text": probe_text(pid, "au::Seconds", "au::Seconds", "double", "double", CHRONO_CONTROL)})
    pid += 1
    # units with non-zero origins on both sides of a dimension mismatch (the library's own Celsius/Fahrenheit and user-defined ones)
    origin_pairs = [("au::Celsius", "VfDeck"), ("VfDeck", "au::Fahrenheit"), ("VfDeck", "VfEpoch"), ("VfEpoch", "au::Celsius"), ("VfGauge", "VfDeck"), ("au::Milli<au::Celsius>", "VfGauge"), ("VfEpoch", "au::Meters")]
    for s1, s2 in origin_pairs if tier != "quick" else rnd.sample(origin_pairs, 4):
        stats["mismatch_pairs"] += 1
        key = ("mm", s1, s2)
        for name, body, kind in OPS:
            if kind in ("q20", "int", "equiv", "inv"):
                continue
            probes.append({"id": pid, "op": name, "u1": s1, "u2": s2, "expect": "reject", "control": False, "dedup_key": key, "cpp20": False, "text": probe_text(pid, s1, s2, rnd.choice(REPS), rnd.choice(REPS), body)})
            pid += 1
        for name, text in TRAITS:
            probes.append({"id": pid, "op": name, "u1": s1, "u2": s2, "expect": "accept", "control": False, "dedup_key": key, "cpp20": False, "text": probe_text(pid, s1, s2, rnd.choice(REPS), rnd.choice(REPS), text)})
            pid += 1
    for s1, s2 in [("VfDeck", "au::Meters"), ("au::Kilo<au::Meters>", "VfDeck"), ("VfEpoch", "au::Seconds")]:
        stats["control_pairs"] += 1
        for name, body, kind in OPS:
            if kind != "p":
                continue
            probes.append({"id": pid, "op": name, "u1": s1, "u2": s2, "expect": "accept", "control": True, "dedup_key": ("ctl", s1, s2), "cpp20": False, "text": probe_text(pid, s1, s2, "double", "double", body)})
            pid += 1
        probes.append({"id": pid, "op": "trait_point", "u1": s1, "u2": s2, "expect": "accept", "control": True, "dedup_key": ("ctl", s1, s2), "cpp20": False, "text": probe_text(pid, s1, s2, "double", "double", TRAITS_CONTROL[1][1])})
        pid += 1
    # controls: same dimension, different unit, policy-permitted reps
    ctrl_dims = [d for d in dims if d != ()]
    rnd.shuffle(ctrl_dims)
    ctrl_pairs = []
    for d1 in ctrl_dims[: (30 if tier == "quick" else 90)]:
        t1, s1, e1 = rnd.choice(by_dim[d1])
        others = [z for z in by_dim[d1] if z[1] != s1 and model.ekey(z[2].mag) != model.ekey(e1.mag) and not model.has_ordering_tie(("mul", t1, z[0]), leaves)]
        if others and rnd.random() < 0.8:
            t2, s2, e2 = rnd.choice(others)
        else:
            s2 = f"decltype({s1}{{}} * au::mag<1000>())"
        ctrl_pairs.append((s1, s2))
    # the same dimension reached through a root of a *named* unit whose own exponents are multiples of the root degree
    # (library volume / dose / solid-angle units and a user-defined area unit) against a unit that has it directly
    root_pairs = [("decltype(au::cbrt(au::Liters{}))", "au::Meters"), ("au::Feet", "decltype(au::cbrt(au::USGallons{}))"), ("decltype(au::sqrt(au::Grays{}))", "decltype(au::Meters{} / au::Seconds{})"),
                  ("decltype(au::sqrt(au::Steradians{}))", "au::Degrees"), ("decltype(au::sqrt(VfAcre{}))", "au::Feet"), ("au::Milli<au::Meters>", "decltype(au::root<3>(au::USPints{}))"),
                  ("decltype(au::sqrt(au::Grays{}) * au::Seconds{})", "au::Meters")]
    ctrl_pairs += root_pairs if tier != "quick" else rnd.sample(root_pairs, 4)
    for s1, s2 in ctrl_pairs:
        stats["control_pairs"] += 1
        key = ("ctl", s1, s2)
        for name, body, kind in OPS:
            u2 = s2
            r1 = r2 = "double"
            if kind == "int":
                u2 = f"decltype({s1}{{}} * au::mag<1000>())"
                r1 = r2 = "int64_t"
            elif kind == "equiv":
                u2 = s1
            elif kind == "inv":
                u2 = f"au::UnitInverseT<{s1}>"
            elif kind == "q20":
                continue
            probes.append({"id": pid, "op": name, "u1": s1, "u2": u2, "expect": "accept", "control": True, "dedup_key": key, "cpp20": False,
                           "text": probe_text(pid, s1, u2, r1, r2, body)})
            pid += 1
        probes.append({"id": pid, "op": "<=>", "u1": s1, "u2": s2, "expect": "accept", "control": True, "dedup_key": key, "cpp20": True,
                       "text": probe_text(pid, s1, s2, "double", "double", "auto r = (a <=> b); (void)r;")})
        pid += 1
        for name, text in TRAITS_CONTROL:
            probes.append({"id": pid, "op": name, "u1": s1, "u2": s2, "expect": "accept", "control": True, "dedup_key": key, "cpp20": False,
                           "text": probe_text(pid, s1, s2, "double", "double", text)})
            pid += 1

    pre = PRE_TMPL % planeb.unit_includes(units)
    cfgs = [(core.GXX, "c++14"), (core.CLANGXX, "c++20")] if tier == "quick" else [(core.GXX, "c++14"), (core.CLANGXX, "c++17"), (core.GXX, "c++20"), (core.CLANGXX, "c++20")]
    by = {p["id"]: p for p in probes}

    def do_cfg(cfg):
        sel = [p for p in probes if not p["cpp20"] or cfg[1] == "c++20"]
        pr = ccmon.ProbeRun(pre, cfg[0], cfg[1], batch=110)
        return cfg, pr.run(sel, tag="c01"), pr

    results = core.pmap(do_cfg, cfgs, workers=min(3, len(cfgs)))
    nprobe = 0
    distinct = set()
    rejected_ok = 0
    for cfg, res, pr in results:
        cs = f"{cfg[0]}:{cfg[1]}"
        if pr.n_unverified:
            chk.fail_inconclusive(f"{pr.n_unverified} batch verdicts could not be re-checked in isolation ({cs})")
        for pid_, r in res.items():
            p = by[pid_]
            nprobe += 1
            if r.get("unverified"):
                continue
            distinct.add((p["op"], p["u1"], p["u2"], p["control"]))
            if p["expect"] == "reject":
                if not r["rejected"]:
                    chk.violation(f'C01|accepted_mismatch|op={p["op"]}|u1={p["u1"][:120]}|u2={p["u2"][:120]}|cfg={cs}',
                                  msg=f'{cs}: `{p["op"]}` between units of different dimension compiles: {p["u1"][:150]}  vs  {p["u2"][:150]}')
                else:
                    rejected_ok += 1
            else:
                if r["rejected"]:
                    kind = "control (same dimension, permitted reps) rejected" if p["control"] else "trait question about a dimension mismatch answers yes or is a hard error"
                    chk.violation(f'C01|{"control_rejected" if p["control"] else "trait"}|op={p["op"]}|u1={p["u1"][:120]}|u2={p["u2"][:120]}|cfg={cs}',
                                  msg=f'{cs}: {kind}: `{p["op"]}` {p["u1"][:150]} vs {p["u2"][:150]}: {(r["msgs"] or ["?"])[0][:200]}')
            if len(chk.cov["samples"]) < 6 and p["op"] in ("hypot", "pt-", "inverse_as") and not p["control"]:
                chk.sample({"probe": p["text"][:400], "expected": p["expect"], "config": cs, "rejected": r["rejected"], "first_diagnostic": (r["msgs"] or [""])[0][:160]})
    chk.add_evals(nprobe, len(distinct))
    chk.cov["rule"] = ("ordered pairs of units of different dimension (library units + generated compound/scaled/powered units; dimension decided by the exact model on the library's reified leaf dimensions) "
                       "x every operation of the statement, each as a one-line probe compiled -fsyntax-only with diagnostics attributed per probe; for every operation a control with same-dimension "
                       "operands and permitted reps must be accepted; trait questions are static_assert lines; distinct_nontrivial = distinct (operation, unit pair, control?)")
    stats.update({"probes": nprobe, "mismatch_probes_rejected_as_required": rejected_ok, "operations": len(OPS) + 3, "configurations": [f"{c} {s}" for c, s in cfgs],
                  "isolated_rechecks": sum(pr.n_isolated for _, _, pr in results)})
    chk.notes.update(stats)
    chk.assumptions += ["rejection is observed on the compiler's run (Plane C); every verdict that disagrees with the model is re-compiled alone before it counts"]
    return chk
