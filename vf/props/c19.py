"""C19: ZERO is the exact zero of every unit (Plane A values + Plane C point refusals)."""
import json
import os

from .. import ccmon, core, model
from .c13 import REPS, rid

ARITH = ["bool", "char", "signed char", "unsigned char", "short", "unsigned short", "int", "unsigned", "long", "unsigned long", "long long", "unsigned long long", "float", "double", "long double"]
DURS = ["std::chrono::nanoseconds", "std::chrono::microseconds", "std::chrono::milliseconds", "std::chrono::seconds", "std::chrono::minutes", "std::chrono::hours",
        "std::chrono::duration<double>", "std::chrono::duration<float, std::ratio<1001, 30000>>", "std::chrono::duration<int, std::ratio<86400>>"]


def emit_tu(rep, unit_exprs, units):
    inc = "\n".join(f'#include "{h}"' for h in sorted({u.header for u in units.values()}))
    L = [f'#include "au/au.hh"\n{inc}\n#include "vf_wrapper.hh"\n#include <chrono>\n', f"using R = {rep};",
         "struct VfFixA { long long v; VfFixA() : v(-7) {} VfFixA(int x) : v(x) {} VfFixA(double x) : v((long long)x) {} VfFixA(long long x) : v(x) {} };",
         "struct VfFixB { double v; VfFixB() : v(-7) {} template <typename T, typename = std::enable_if_t<std::is_arithmetic<T>::value>> VfFixB(T x) : v((double)x) {} };",
         "struct VfFixC { int v; VfFixC() : v(-7) {} VfFixC(int x) : v(x) {} };",
         "int main(int argc, char **argv) {",
         "  vf::install_handlers();", '  auto U = [&](int i) { return argc > i ? strtoull(argv[i], 0, 10) : 0ull; };']
    for i, (name, expr) in enumerate(unit_exprs):
        L.append(f'  {{ using namespace au; vfw::run_zero<decltype({expr}), R>({i}, "{rep}", "{name}", U(1), U(2) + {i}); }}')
    # user-defined reps whose default-constructed value is not their numeric zero (NaN-poisoned double, sentinel integer)
    for i, (name, expr) in enumerate(unit_exprs[:3]):
        L.append(f'  {{ using namespace au; vfw::run_zero_udrep<decltype({expr}), double, 0>({500 + i}, "user-defined rep (double, default NaN)", "{name}"); vfw::run_zero_udrep<decltype({expr}), long long, 1>({600 + i}, "user-defined rep (long long, default -999)", "{name}"); vfw::run_zero_udrep<decltype({expr}), float, 0>({700 + i}, "user-defined rep (float, default NaN)", "{name}"); }}')
    # conversions of ZERO to every arithmetic type and chrono durations (checked once per TU)
    L.append('  { unsigned long long bad = 0, n = 0;')
    for t in ARITH:
        L.append(f'    {{ {t} v = au::ZERO; n++; if (!(v == ({t})0)) bad++; {t} w{{au::ZERO}}; n++; if (!(w == ({t})0)) bad++; }}')
    for t in DURS:
        L.append(f'    {{ {t} d = au::ZERO; n++; if (d.count() != 0) bad++; }}')
    # durations whose Rep is a class type emulating an arithmetic type (the standard allows it): several arithmetic constructors,
    # a constrained template constructor, a single constructor
    L.append('    { std::chrono::duration<VfFixA> d = au::ZERO; n++; if (!(d.count().v == 0)) bad++; std::chrono::duration<VfFixB, std::milli> e = au::ZERO; n++; if (!(e.count().v == 0)) bad++;'
             ' std::chrono::duration<VfFixC, std::ratio<60>> f = au::ZERO; n++; if (!(f.count().v == 0)) bad++; std::chrono::duration<VfFixA> g{au::ZERO}; n++; if (!(g.count().v == 0)) bad++; }')
    L.append('    printf("{\\"ev\\":\\"zconv\\",\\"n\\":%llu,\\"bad\\":%llu}\\n", n, bad); }')
    L += ["  vf::print_traps_json(); vf::print_diag_json();", '  printf("{\\"ev\\":\\"done\\"}\\n");', "  return 0;", "}"]
    return "\n".join(L) + "\n"


def probes():
    """ZERO must never be accepted where a QuantityPoint is required; the Quantity form is the control."""
    out = []
    pid = 1
    forms = [
        ("construct", "auto x = {W}{{au::ZERO}}; (void)x;"),
        ("copy_init", "{W} x = au::ZERO; (void)x;"),
        ("assign", "{W} x{{}}; x = au::ZERO; (void)x;"),
        ("pass", "struct L {{ static void f({W}) {{}} }}; L::f(au::ZERO);"),
        ("return", "struct L {{ static {W} f() {{ return au::ZERO; }} }}; (void)L::f();"),
        ("is_convertible", "static_assert(std::is_convertible<au::Zero, {W}>::value == {EXPECT}, \"vf\");"),
        ("is_constructible", "static_assert(std::is_constructible<{W}, au::Zero>::value == {EXPECT}, \"vf\");"),
        ("compare", "{W} x{{}}; bool b = (x == au::ZERO); (void)b;"),
    ]
    for unit in ("au::Meters", "au::Celsius", "au::Kilo<au::Kelvins>", "au::Fahrenheit"):
        for rep in ("int", "double", "uint8_t", "float", "int64_t"):
            for name, tmpl in forms:
                for kind, W in (("point", f"au::QuantityPoint<{unit}, {rep}>"), ("quantity", f"au::Quantity<{unit}, {rep}>")):
                    trait = name.startswith("is_")
                    if trait:
                        body = tmpl.format(W=W, EXPECT="false" if kind == "point" else "true")
                        expect = "accept"  # the static_assert encodes the expected answer; it must compile (total + correct)
                    else:
                        body = tmpl.format(W=W)
                        expect = "reject" if kind == "point" else "accept"
                    out.append({"id": pid, "unit": unit, "rep": rep, "form": name, "kind": kind, "expect": expect, "trait": trait,
                                "text": f"void vf_p{pid}() {{ {body} }}"})
                    pid += 1
    return out


def run(chk, which="C19"):
    tier = chk.tier
    units = {u.type: u for u in model.scan_units()}
    rnd = core.rng("c19", tier)
    names = sorted(units)
    d = core.subdir("c19")
    per_tu = 10 if tier == "quick" else 20
    plans = []
    for rep in REPS:
        chosen = rnd.sample(names, per_tu)
        ue = [(n, f"au::{n}{{}}") for n in chosen]
        k = 0
        while k < (3 if tier == "quick" else 8):
            t = model.gen_tree(rnd, names, 2)
            if model.count_leaves(t) > 4 or any(x in repr(t) for x in ("Hertz", "Becquerel", "Celsius", "Fahrenheit", "Rankines", "Kelvins")):
                continue
            ue.append((f"gen{k}", model.spell(t, "unit", units)))
            k += 1
        plans.append((rep, ue))
    flav = ["G_trap", "L_plain"] if tier == "quick" else ["G_trap", "L_plain", "Lub_trap", "G_plain"]

    def do(job):
        (rep, ue), fl = job
        src = os.path.join(d, f"{rid(rep)}_{fl}.cc")
        exe = os.path.join(d, f"{rid(rep)}_{fl}.exe")
        core.write(src, emit_tu(rep, ue, units))
        # (C++20 rewrites comparisons through operator<=>: one of the builds is a C++20 one in every tier)
        rc, se = core.build(src, exe, fl, std={"G_trap": "c++14", "L_plain": "c++20", "Lub_trap": "c++17", "G_plain": "c++20"}.get(fl, "c++14"))
        if rc != 0:
            return rep, fl, None, se
        rc, so, se = core.sh([exe, str(200 if tier == "quick" else 4000), str(core.sub_seed("c19", rep) % 2 ** 62)], timeout=1800)
        if rc != 0 or '"ev":"done"' not in so:
            raise core.Inconclusive(f"C19 run failed {rep} {fl}: rc={rc} {se[-300:]}")
        return rep, fl, [json.loads(l) for l in so.splitlines() if l.startswith("{")], ""

    core.reach(chk, emit_tu("float", plans[0][1][:6], units), [[60, 1]])
    pr_list = probes()
    cfgs = core.CONFIGS if tier == "thorough" else [(core.GXX, "c++14"), (core.CLANGXX, "c++17"), (core.GXX, "c++20")]
    pre = '#include "au/au.hh"\n#include "au/units/meters.hh"\n#include "au/units/celsius.hh"\n#include "au/units/fahrenheit.hh"\n#include "au/units/kelvins.hh"\n#include <cstdint>\n#include <type_traits>\n'

    def do_cfg(cfg):
        pr = ccmon.ProbeRun(pre, cfg[0], cfg[1], batch=120)
        return cfg, pr.run(pr_list, tag="c19p")

    results = core.pmap(do, [(p, fl) for p in plans for fl in flav])
    cfg_results = core.pmap(do_cfg, cfgs)
    evals = 0
    distinct = set()
    for rep, fl, events, se in results:
        if events is None:
            chk.violation(f"C19|harness_reject|rep={rep}|flavour={fl}", msg=f"expressions mixing ZERO and Quantity<.,{rep}> do not compile under {fl}: {se.split('error:')[1][:200] if 'error:' in se else se[:200]}")
            continue
        for ev in events:
            if ev["ev"] == "zero":
                evals += ev["evals"]
                rep_ = ev["rep"] if ev["rep"].startswith("user-defined") else rep
                distinct.add((rep_, ev["unit"]))
                for w in ev["wit"]:
                    chk.violation(f'C19|value|rep={rep_}|op={w["op"]}|x={w["a"]}', msg=f'{fl}: `{w["op"]}` with q={w["a"]} ({rep_}, unit {ev["unit"]}): got {w["got"]}, raw expression with 0 gives {w["want"]}')
                if len(chk.cov["samples"]) < 8:
                    chk.sample({"rep": rep, "unit": ev["unit"], "build": fl, "values": ev["values"], "expression_evaluations": ev["evals"]})
            elif ev["ev"] == "zconv":
                evals += ev["n"]
                if ev["bad"]:
                    chk.violation(f"C19|zero_conversion|rep_tu={rep}", msg=f"{fl}: ZERO converted to a non-zero arithmetic value or chrono duration ({ev['bad']} of {ev['n']})")
            elif ev["ev"] == "traps":
                for r in ev["recs"]:
                    if r["phase"] == "OPERATION":
                        chk.violation(f'C19|trap|rep={rep}|x={r["aux0"]}', msg=f"{fl}: UB trapped in an expression mixing ZERO with a {rep} quantity (bits {r['aux0']:#x})")
                    else:
                        chk.fail_inconclusive(f"trap in harness phase {r['phase']} ({rep},{fl})")
    nprobe = 0
    by = {p["id"]: p for p in pr_list}
    for cfg, res in cfg_results:
        for pid, r in res.items():
            p = by[pid]
            nprobe += 1
            if r.get("unverified"):
                continue
            cfgs_ = f"{cfg[0]}:{cfg[1]}"
            if p["expect"] == "reject" and not r["rejected"]:
                chk.violation(f'C19|point_accepts_zero|cfg={cfgs_}|form={p["form"]}|unit={p["unit"]}|rep={p["rep"]}', msg=f'{cfgs_}: ZERO accepted where QuantityPoint<{p["unit"]},{p["rep"]}> is required ({p["form"]})')
            if p["expect"] == "accept" and r["rejected"]:
                if p["kind"] == "quantity":
                    chk.violation(f'C19|quantity_rejects_zero|cfg={cfgs_}|form={p["form"]}|unit={p["unit"]}|rep={p["rep"]}', msg=f'{cfgs_}: ZERO not usable with Quantity<{p["unit"]},{p["rep"]}> ({p["form"]}): {r["msgs"][:1]}')
                else:
                    chk.violation(f'C19|point_trait|cfg={cfgs_}|form={p["form"]}|unit={p["unit"]}|rep={p["rep"]}', msg=f'{cfgs_}: trait question about ZERO -> QuantityPoint answers yes or is a hard error: {r["msgs"][:1]}')
    chk.add_evals(evals + nprobe, len(distinct))
    chk.cov["rule"] = ("per rep: a seeded sample of library units + generated compound units; for every value (all 8/16-bit values, boundary/NaN/inf/-0/denormal/random otherwise) 23 expressions mixing ZERO "
                       "and the quantity are compared with the raw expression on R{0}; compile probes: ZERO vs QuantityPoint (must be refused, trait questions must answer no) with the Quantity form as accepted control; "
                       "distinct_nontrivial = distinct (rep, unit) pairs executed")
    chk.notes.update({"compile_probes": nprobe, "configurations": [f"{c} {s}" for c, s in cfgs], "builds": flav})
    return chk
