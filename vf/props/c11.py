"""C11: magnitude evaluation and classification are exact (Plane B trace + Plane C reject probes)."""
import decimal
import math
from fractions import Fraction

from .. import ccmon, core, model, numth, planeb

D = decimal.Decimal
CTX = decimal.Context(prec=130, Emax=10 ** 9, Emin=-10 ** 9)
PI = D("3.14159265358979323846264338327950288419716939937510582097494459230781640628620899862803482534211706798214808651328230664709384460955058223172535940812848111745")

INT_T = {"int8_t": (8, True), "uint8_t": (8, False), "int16_t": (16, True), "uint16_t": (16, False), "int32_t": (32, True), "uint32_t": (32, False),
         "int64_t": (64, True), "uint64_t": (64, False)}
FLT_T = {"float": (24, 127, -149), "double": (53, 1023, -1074), "long double": (64, 16383, -16445)}


def imax(t):
    b, s = INT_T[t]
    return 2 ** (b - 1) - 1 if s else 2 ** b - 1


def fmax(t):
    dg, emax, _ = FLT_T[t]
    return (2 - Fraction(1, 2 ** (dg - 1))) * Fraction(2) ** emax


def exact_value(m):
    """high-precision Decimal of the magnitude (exponent map)"""
    v = D(1)
    for base, e in m.items():
        b = PI if base == "pi" else D(base)
        x = CTX.power(b, D(e.numerator))
        if e.denominator != 1:
            x = CTX.exp(CTX.divide(CTX.ln(x), D(e.denominator)))
        v = CTX.multiply(v, x)
    return v


def parse_hexfloat(s):
    """'%La' output -> Fraction (exact)"""
    s = s.strip()
    neg = s.startswith("-")
    s = s.lstrip("+-")
    if s in ("inf", "nan"):
        return None
    assert s.startswith("0x"), s
    mant, _, exp = s[2:].partition("p")
    ip, _, fp = mant.partition(".")
    num = int(ip + fp, 16) if (ip + fp) else 0
    val = Fraction(num, 16 ** len(fp)) * Fraction(2) ** int(exp)
    return -val if neg else val


def ulp(t, v):
    dg, emax, dmin = FLT_T[t]
    if v <= 0:
        return Fraction(2) ** dmin
    # floor(log2 v)
    n, d = v.numerator, v.denominator
    e = n.bit_length() - d.bit_length()
    if Fraction(2) ** e > v:
        e -= 1
    u = Fraction(2) ** (e - dg + 1)
    return max(u, Fraction(2) ** dmin)


# ---- generator -------------------------------------------------------------------------------------
PRIMES_SMALL = [2, 3, 5, 7, 11, 13]
PRIMES_BIG = [2 ** 31 - 1, 2 ** 32 - 5, 2 ** 61 - 1, 2 ** 63 - 25, 2 ** 63 + 29, 2 ** 64 - 59, 65537, 4294967311]


def int_tree(n):
    """magnitude tree for the integer n, written as an explicit product of prime powers"""
    fs = sorted(numth.factor(n).items())
    if not fs:
        return ("int", 1)
    t = None
    for p, k in fs:
        f = ("int", p) if k == 1 else ("mpow", ("int", p), k)
        t = f if t is None else ("mmul", t, f)
    return t


def structured():
    out = []
    for k in (7, 8, 15, 16, 31, 32, 63, 64):
        for dlt in (-1, 0, 1):
            n = 2 ** k + dlt
            out.append(int_tree(n))
    for n in (127, 128, 255, 256, 32767, 32768, 65535, 65536, 10 ** 9, 10 ** 10, 10 ** 18, 10 ** 19, 1, 2, 1000):
        out.append(("int", n))
    out.append(int_tree(10 ** 20))
    for p in PRIMES_BIG:
        out.append(("int", p))
        out.append(("mmul", ("int", p), ("int", 2)))
        out.append(("mdiv", ("int", 1), ("int", p)))
        out.append(("mroot", ("int", p), 2))
    for e in (38, 39, 45, 46, 308, 309, 323, 324, 325, 4932, 4933, 4950, 4951, 4952, 5000):
        out.append(("mpow", ("int", 10), e))
        out.append(("mpow", ("int", 10), -e))
    for e in (126, 127, 128, 149, 150, 1023, 1024, 1074, 1075, 16383, 16384, 16445, 16446):
        out.append(("mpow", ("int", 2), e))
        out.append(("mpow", ("int", 2), -e))
    out += [("mroot", ("int", 2), 2), ("mroot", ("int", 10), 3), ("pi",), ("mpow", ("pi",), 2), ("mpow", ("pi",), -1), ("mroot", ("pi",), 2),
            ("mdiv", ("pi",), ("int", 180)), ("mmul", ("mroot", ("int", 2), 2), ("mroot", ("int", 8), 2)), ("mpow", ("mroot", ("int", 3), 2), 2),
            ("mdiv", ("int", 1250), ("int", 381)), ("mdiv", ("int", 5), ("int", 9)), ("mpow", ("pi",), 20), ("mpow", ("pi",), -20),
            ("mroot", ("mpow", ("int", 2), 3), 2), ("mroot", ("mpow", ("int", 7), 5), 3), ("mmul", ("mpow", ("int", 2), 3), ("mroot", ("int", 3), 2)),
            # rational powers with large numerators (the order root-then-power vs power-then-root matters for the error)
            ("mroot", ("mpow", ("int", 2), 101), 2), ("mroot", ("mpow", ("int", 3), 101), 2), ("mroot", ("mpow", ("int", 2), 64), 7), ("mroot", ("mpow", ("int", 2), 21), 2),
            ("mroot", ("mpow", ("int", 5), 33), 4), ("mpow", ("mroot", ("int", 7), 3), 50), ("mroot", ("mpow", ("int", 2), -75), 2), ("mroot", ("mpow", ("int", 10), 41), 3),
            # roots of single prime powers that are far beyond every built-in type's range themselves (the root is in range)
            ("mroot", ("mpow", ("int", 2), 1201), 2), ("mroot", ("mpow", ("int", 2), 1000), 3), ("mroot", ("mpow", ("int", 10), 601), 2), ("mroot", ("mpow", ("int", 2), 2047), 2),
            ("mroot", ("mpow", ("int", 2), -1201), 2), ("mroot", ("mpow", ("int", 10), -613), 3), ("mroot", ("mpow", ("int", 2), 32001), 2), ("mroot", ("mpow", ("int", 2), 5003), 5),
            ("mroot", ("mpow", ("int", 3), 1001), 2), ("mroot", ("mpow", ("int", 10), 1201), 4), ("mroot", ("mpow", ("int", 2), -2047), 2), ("mroot", ("mpow", ("int", 7), 2999), 3),
            ("mmul", ("mroot", ("mpow", ("int", 2), 1501), 2), ("mroot", ("mpow", ("int", 3), -901), 2)), ("mroot", ("mpow", ("int", 2), 190), 3),
            # two primes beyond 2^53 that are neighbours as doubles, in one magnitude
            ("mdiv", ("int", 2305843009213693951), ("int", 2305843009213693921)), ("mmul", ("int", 2305843009213693951), ("int", 2305843009213693921)), ("mdiv", ("int", 18446744073709551557), ("int", 18446744073709551533)),
            # composites that are strong pseudoprimes to bases 2 and 3 (and to 2, 3, 5), as single literals next to their true factors
            ("mdiv", ("int", 1373653), ("int", 829)), ("mdiv", ("int", 25326001), ("int", 2251)), ("mdiv", ("int", 3215031751), ("int", 151)), ("mmul", ("int", 1530787), ("int", 2)),
            # the integer power overflows long double although its root is in range (known finding N10)
            ("mroot", ("mpow", ("int", 3), 19999), 2)]
    return out


def gen_random(rnd):
    t = None
    for _ in range(rnd.choice([1, 2, 2, 3])):
        r = rnd.random()
        base = ("pi",) if r < 0.12 else ("int", rnd.choice(PRIMES_SMALL if r < 0.8 else PRIMES_BIG))
        num = rnd.choice([1, 1, 2, 3, -1, -2, 5, 7, -3, 10, 20, 40])
        den = rnd.choice([1, 1, 1, 2, 3])
        f = base
        if num != 1:
            f = ("mpow", f, num)
        if den != 1:
            f = ("mroot", f, den)
        t = f if t is None else (("mmul", t, f) if rnd.random() < 0.7 else ("mdiv", t, f))
    return t


def classify(m):
    """documented definitions (docs/reference/magnitude.md)"""
    is_int = model.mag_is_integer(m)
    is_rat = model.mag_is_rational(m)
    num = {k: v for k, v in m.items() if v > 0}
    den = {k: -v for k, v in m.items() if v < 0}
    intpart = {}
    for k, v in m.items():
        if k != "pi" and v >= 1:
            intpart[k] = Fraction(v.numerator // v.denominator)
    return is_int, is_rat, num, den, intpart


WORST = []


def run(chk, which="C11"):
    tier = chk.tier
    rnd = core.rng("c11", tier)
    trees = structured()
    n_rand = 120 if tier == "quick" else 1500
    while len(trees) < len(structured()) + n_rand:
        trees.append(gen_random(rnd))
    # drop duplicates by model value and anything with exponents too wild for std::ratio
    seen = set()
    mags = []
    for t in trees:
        m = model.mag_eval(t)
        k = model.ekey(m)
        if k in seen or any(abs(v.numerator) > 20000 or v.denominator > 12 for v in m.values()):
            continue
        seen.add(k)
        mags.append((t, m))
    if tier == "quick":
        fixed = mags[:len(structured())]
        rest = mags[len(structured()):]
        rnd.shuffle(fixed)
        mags = fixed + rest  # (every structured magnitude in every run; only the random ones vary with the seed)
    n_tu = 16 if tier == "quick" else 64
    units = {}
    plans = []
    for ti in range(n_tu):
        part = mags[ti::n_tu]
        stmts, entries = [], {}
        sid = 1
        for j, (t, m) in enumerate(part):
            tag = f"m{ti}_{j}"
            expr = model.mag_spell(t)
            entries[tag] = (t, m, expr)
            stmts.append((sid, f'vfy::reify_mag<decltype({expr})>("{tag}");'))
            sid += 1
        # magnitude equality / canonical factorisation slice (C12's mag<a>()*mag<b>() == mag<a*b>() clause lives here)
        for j in range(6):
            a, b = rnd.choice([2, 3, 12, 60, 1000, 5280, 7919, 65537, 2 ** 31 - 1]), rnd.choice([2, 6, 10, 127, 1024, 9973, 65521])
            tag = f"e{ti}_{j}"
            entries[tag] = ("eq", a, b)
            stmts.append((sid, f'vfy::reify_mag_eq<decltype(au::mag<{a}ull>() * au::mag<{b}ull>()), decltype(au::mag<{a * b}ull>())>("{tag}");'))
            sid += 1
            tag = f"n{ti}_{j}"
            entries[tag] = ("ne", a, b)
            stmts.append((sid, f'vfy::reify_mag_eq<decltype(au::mag<{a}ull>() / au::mag<{b}ull>()), decltype(au::mag<{a * b}ull>())>("{tag}");'))
            sid += 1
        plans.append((ti, stmts, entries))

    cfg_main = ("G_O0", "c++14")
    results = core.pmap(lambda p: planeb.build_run(f"c11_{p[0]}", p[1], units, cfg_main[0], cfg_main[1], extra_includes="#include <cstdint>"), plans)
    alt = [("L_O0", "c++17")] if tier == "quick" else [("L_O0", "c++14"), ("L_O0", "c++20"), ("G_O0", "c++20")]
    alt_jobs = [(p, fl, std) for p in plans[: (3 if tier == "quick" else 8)] for fl, std in alt]
    alt_results = core.pmap(lambda j: planeb.build_run(f"c11alt_{j[0][0]}_{j[1]}_{j[2].replace('+', 'p')}", j[0][1], units, j[1], j[2], extra_includes="#include <cstdint>"), alt_jobs)

    n_events = 0
    distinct = set()
    reject_probes = []
    pid = 1
    for (ti, stmts, entries), (events, rejected, md5, err) in zip(plans, results):
        if err:
            chk.fail_inconclusive(f"C11 TU {ti} failed: {err}")
            continue
        by_sid = {s[0]: s[1] for s in stmts}
        for sid, msgs in rejected.items():
            chk.violation(f"C11|rejected|stmt={by_sid[sid][:200]}", msg=f"magnitude reification statement rejected by the compiler: {by_sid[sid][:300]} :: {msgs[0][:200]}")
        for ev in events:
            if ev["ev"] == "mageq":
                kind, a, b = entries[ev["tag"]]
                n_events += 1
                want = kind == "eq"
                if bool(ev["same_type"]) != want or bool(ev["op_eq"]) != want or bool(ev["op_ne"]) == want:
                    chk.violation(f"C11|mag_identity|{kind}|a={a}|b={b}", msg=f"mag<{a}>() {'*' if want else '/'} mag<{b}>() vs mag<{a * b}>(): same_type={ev['same_type']} ==:{ev['op_eq']} !=:{ev['op_ne']}, expected {'equal' if want else 'different'}")
                continue
            if ev["ev"] != "mag":
                continue
            t, m, expr = entries[ev["tag"]]
            n_events += 1
            got = model.parse_mag_event(ev["mag"])
            if model.ekey(got) != model.ekey(m):
                chk.violation(f"C11|canonical|expr={expr[:200]}", msg=f"{expr[:300]}: library exponent vector {model.ekey(got)} != exact {model.ekey(m)}")
                continue
            is_int, is_rat, num, den, intpart = classify(m)
            checks = [("is_integer", bool(ev["is_integer"]), is_int), ("is_rational", bool(ev["is_rational"]), is_rat),
                      ("numerator", model.ekey(model.parse_mag_event(ev["num"])), model.ekey(num)), ("denominator", model.ekey(model.parse_mag_event(ev["den"])), model.ekey(den)),
                      ("integer_part", model.ekey(model.parse_mag_event(ev["intpart"])), model.ekey(intpart))]
            for name, g, w in checks:
                if g != w:
                    chk.violation(f"C11|{name}|expr={expr[:200]}", msg=f"{name}({expr[:250]}) = {g}, documented definition gives {w}")
            exact = exact_value(m)
            exact_fr = None
            expsum = sum(abs(v) for v in m.values())
            for tname, info in ev["types"].items():
                distinct.add((model.ekey(m), tname))
                rep = bool(info["rep"])
                key = f"T={tname}|expr={expr[:200]}"
                if tname in INT_T:
                    want_rep = is_int and model.mag_to_fraction(m) <= imax(tname)
                    if rep != want_rep:
                        chk.violation(f"C11|representable_in|{key}", msg=f"representable_in<{tname}>({expr[:250]}) = {rep}, exact value {'fits' if want_rep else 'does not fit'}")
                    if rep:
                        want = int(model.mag_to_fraction(m)) if is_int else None
                        if want is None or int(info["val"]) != want:
                            chk.violation(f"C11|get_value|{key}", msg=f"get_value<{tname}>({expr[:250]}) = {info['val']}, exact {want}")
                    if not want_rep:
                        reject_probes.append({"id": pid, "expect": "reject", "T": tname, "expr": expr, "text": f"void vf_p{pid}() {{ auto v = au::get_value<{tname}>({expr}); (void)v; }}"})
                        pid += 1
                else:
                    dg, emax, dmin = FLT_T[tname]
                    mx = fmax(tname)
                    band = Fraction(1, 2 ** 40)
                    if exact_fr is None:
                        # Decimal -> Fraction (exact conversion of the 130-digit approximation)
                        exact_fr = Fraction(exact) if abs(exact.adjusted()) < 6000 else None
                    # float/double are evaluated in long double, so their whole subnormal range is computed accurately:
                    # a value >= denorm_min must be representable, one below denorm_min/2 rounds to zero and must not be;
                    # in between (rounds up to denorm_min) nothing is demanded.  long double has no wider type behind it:
                    # below its smallest normal value representable_in is not judged (see assumptions).
                    must_zero = False
                    if exact_fr is None:
                        too_big, too_small = exact.adjusted() > 0, exact.adjusted() < 0
                        must_zero = too_small and tname != "long double" and exact.adjusted() < -400
                    else:
                        lo_judge = Fraction(2) ** dmin if tname != "long double" else Fraction(2) ** (dmin + dg - 1)
                        too_big, too_small = exact_fr > mx * (1 + band), exact_fr < lo_judge
                        must_zero = tname != "long double" and exact_fr < Fraction(2) ** (dmin - 1) * (1 - band)
                    in_range = (not too_big and not too_small) and (exact_fr is not None and exact_fr < mx * (1 - band))
                    if must_zero and rep:
                        chk.violation(f"C11|representable_in|{key}", msg=f"representable_in<{tname}>({expr[:250]}) is true but the exact value ~{exact:.4E} is below half the smallest positive {tname} (it can only be stored as zero)")
                    if must_zero:
                        reject_probes.append({"id": pid, "expect": "reject", "T": tname, "expr": expr, "text": f"void vf_p{pid}() {{ auto v = au::get_value<{tname}>({expr}); (void)v; }}"})
                        pid += 1
                    if too_big and rep:
                        chk.violation(f"C11|representable_in|{key}", msg=f"representable_in<{tname}>({expr[:250]}) is true but the exact value exceeds the type's maximum")
                    if in_range and not rep:
                        chk.violation(f"C11|representable_in|{key}", msg=f"representable_in<{tname}>({expr[:250]}) is false but the exact value ~{exact:.6E} is in range")
                    if rep and not too_big:
                        got_v = parse_hexfloat(info["val"])
                        if got_v is None or got_v <= 0:
                            chk.violation(f"C11|get_value_not_positive|{key}", msg=f"get_value<{tname}>({expr[:250]}) = {info['val']}: not a strictly positive finite value (exact value ~ {exact:.6E})")
                        elif exact_fr is not None:
                            # every multiplication by a rounded base contributes: the budget grows with the total power
                            npow = sum(abs(v.numerator) + v.denominator - 1 for v in m.values())
                            # long double is the library's own working type, so its error is the accumulated one.  Measured on the
                            # unmodified tree: powers of two are exact, pi^k drifts by about 0.45*k ulp (pi itself is rounded), other
                            # primes by at most k/4 ulp once the power no longer fits the 64-bit mantissa (repeated squaring), a root
                            # adds at most one.  The budget keeps a third above those slopes and does NOT grow with the numerator for
                            # base 2, so a change that takes the root first (error multiplied by the numerator) is seen.
                            if tname != "long double":
                                tol_ulps = 2 + npow // 1024
                            else:
                                tol_ulps = Fraction(3)
                                for b_, e_ in m.items():
                                    n_ = abs(e_.numerator)
                                    tol_ulps += (1 if e_.denominator > 1 else 0) + (Fraction(3, 4) * n_ + 1 if b_ == "pi" else (0 if b_ == 2 else Fraction(2, 5) * n_))
                            u = ulp(tname, exact_fr)
                            err_ = abs(got_v - exact_fr)
                            pi_pow = abs(m.get("pi", Fraction(0)))
                            WORST.append((float(err_ / u), tname, float(pi_pow), npow, expr[:80]))
                            ok = err_ <= u * tol_ulps
                            if not ok:
                                chk.violation(f"C11|get_value|{key}", msg=f"get_value<{tname}>({expr[:250]}) = {info['val']} is {float(err_ / u):.3g} ulp from the exact value")
                    if too_big:
                        reject_probes.append({"id": pid, "expect": "reject", "T": tname, "expr": expr, "text": f"void vf_p{pid}() {{ auto v = au::get_value<{tname}>({expr}); (void)v; }}"})
                        pid += 1
                if info.get("rt_differs"):
                    chk.violation(f"C11|constexpr_vs_runtime|{key}", msg=f"get_value<{tname}>({expr[:250]}) differs between constant evaluation and run time")
            if len(chk.cov["samples"]) < 8 and len(m) >= 2:
                chk.sample({"magnitude": expr, "exponents": ev["mag"], "is_integer": ev["is_integer"], "is_rational": ev["is_rational"],
                            "representable": {k: v["rep"] for k, v in ev["types"].items()}, "double": ev["types"]["double"]["val"]})
    # cross-configuration determinism
    md5_main = {p[0]: r[2] for p, r in zip(plans, results)}
    for (p, fl, std), (events, rejected, md5, err) in zip(alt_jobs, alt_results):
        if err:
            chk.fail_inconclusive(f"alt config {fl} {std} failed: {err}")
        elif rejected or md5 != md5_main[p[0]]:
            chk.violation(f"C11|config_diff|{fl}|{std}|tu={p[0]}", msg=f"magnitude trace of TU {p[0]} differs between g++ c++14 and {fl} {std} (rejected statements: {len(rejected)})")
    # Plane C: get_value must be a compile error when not representable
    rnd.shuffle(reject_probes)
    reject_probes = reject_probes[: (500 if tier == "quick" else 4000)]
    for i, p in enumerate(reject_probes):
        p["dedup_key"] = (p["T"], p["expr"])
    pre = '#include "au/au.hh"\n#include <cstdint>\n'
    nrej = 0
    for cfg in ([(core.GXX, "c++14")] if tier == "quick" else [(core.GXX, "c++14"), (core.CLANGXX, "c++17")]):
        pr = ccmon.ProbeRun(pre, cfg[0], cfg[1], batch=60)
        res = pr.run(reject_probes, tag="c11r")
        byid = {p["id"]: p for p in reject_probes}
        for pid_, r in res.items():
            nrej += 1
            if r.get("unverified"):
                continue
            if not r["rejected"]:
                p = byid[pid_]
                chk.violation(f'C11|get_value_compiles|T={p["T"]}|expr={p["expr"][:200]}', msg=f'{cfg[0]} {cfg[1]}: get_value<{p["T"]}>({p["expr"][:250]}) compiles although the exact value is not representable in {p["T"]}')
    chk.add_evals(n_events * 11 + nrej, len(distinct))
    chk.cov["rule"] = ("magnitudes: structured integers straddling every integer type's maximum (2^k-1, 2^k, 2^k+1 as explicit prime-power products), huge primes up to 2^64-59, powers of 10 and 2 around "
                       "FLT/DBL/LDBL max and min, roots, pi powers, plus seeded random products of rational prime/pi powers; each is reified for 11 types (representable_in, guarded get_value, classification); "
                       "Python recomputes with exact rationals / 130-digit decimals; not-representable cases become get_value reject probes; distinct_nontrivial = distinct (magnitude, type) pairs")
    chk.notes.update({"magnitudes": len(mags), "reject_probes": nrej, "translation_units": n_tu})
    chk.assumptions += ["floating tolerance: 2 ulp (float, double), 16 ulp (long double; relative 2^-50 when the sum of |exponents| exceeds 64); representable_in is judged down to denorm_min for float/double (must be false below denorm_min/2), and for long double not below its smallest normal value, "
                        "but a 'representable' value must be strictly positive", "pi is an independent 150-digit literal"]
    return chk
