"""C16: constants convert exactly or not at all (Plane B trace + Plane C reject probes)."""
import glob
import os
import re
from fractions import Fraction

from .. import ccmon, core, model, numth, planeb
from . import c11

TYPES = list(c11.INT_T) + list(c11.FLT_T)


def scan_constants():
    out = []
    for f in sorted(glob.glob(os.path.join(core.INC, "au", "constants", "*.hh"))):
        b = os.path.basename(f)
        if b.endswith("_fwd.hh") or b.endswith("_test.cc"):
            continue
        s = open(f).read()
        found = re.findall(r"constexpr auto (\w+)\s*=\s*make_constant", s)
        if not found:
            raise core.Inconclusive(f"constant table scan: no constant recognised in {b} (the scanner's patterns need updating)")
        for name in found:
            out.append((name, "au/constants/" + b))
    return out


def ratio_trees(rnd, tier):
    """unit_ratio(C, u) values to ask about: integers straddling every type's maximum, rationals, huge primes, irrational"""
    out = []
    for k in (7, 8, 15, 16, 31, 32, 63, 64):
        for dlt in (-1, 0, 1):
            out.append(c11.int_tree(2 ** k + dlt))
    out += [("int", 1), ("int", 1000), ("int", 299792458), ("mdiv", ("int", 1), ("int", 1000)), ("mdiv", ("int", 5), ("int", 9)), ("mdiv", ("int", 1250), ("int", 381)),
            ("int", 2 ** 63 + 29), ("int", 2 ** 64 - 59), ("mmul", ("int", 2 ** 64 - 59), ("int", 3)), ("pi",), ("mdiv", ("pi",), ("int", 180)), ("mroot", ("int", 2), 2),
            ("mpow", ("int", 10), 38), ("mpow", ("int", 10), 39), ("mpow", ("int", 10), 308), ("mpow", ("int", 10), 309), ("mpow", ("int", 10), -37),
            ("mpow", ("int", 10), 4932), ("mpow", ("int", 10), 4933), ("mpow", ("int", 10), -34), ("mdiv", ("int", 662607015), ("mpow", ("int", 10), 42)),
            # two distinct primes beyond 2^53 that round to the same double (and the same long double neighbourhood): ratio ~1, product ~5e36
            ("mdiv", ("int", 2305843009213693951), ("int", 2305843009213693921)), ("mmul", ("int", 2305843009213693951), ("int", 2305843009213693921)),
            ("mdiv", ("int", 18446744073709551557), ("int", 18446744073709551533))]
    for _ in range(10 if tier == "quick" else 200):
        out.append(c11.gen_random(rnd))
    return out


def run(chk, which="C16"):
    tier = chk.tier
    rnd = core.rng("c16", tier)
    units = {u.type: u for u in model.scan_units()}
    consts = scan_constants()
    if len(consts) < 5:
        raise core.Inconclusive("constant scan failed")
    names = sorted(units)
    # constant expressions: library constants + make_constant(generated unit)
    cexprs = [(n, f"au::{n}", h) for n, h in consts]
    for k in range(6 if tier == "quick" else 40):
        t = model.gen_tree(rnd, names, 2)
        if model.count_leaves(t) > 4 or any(x in repr(t) for x in ("Hertz", "Becquerel", "Celsius", "Fahrenheit", "Rankines", "Kelvins")):
            continue
        cexprs.append((f"gen{k}", f"au::make_constant({model.spell(t, 'unit', units)})", None))
    # ad hoc constants whose unit is an anonymous scaled unit (the documented make_constant(unit_expr * mag<N>()) form)
    cexprs += [("adhoc_c", "au::make_constant(au::Meters{} / au::Seconds{} * au::mag<299792458>())", None), ("adhoc_r", "au::make_constant(au::Meters{} * au::mag<3>() / au::mag<7>())", None),
               ("adhoc_pi", "au::make_constant(au::Radians{} * au::Magnitude<au::Pi>{} / au::mag<180>())", None)]
    ratios = ratio_trees(rnd, tier)
    # ratios inside the subnormal band of float / double that are not pure inverse integers (those convert by multiplying with
    # one stored number, which is representable): two of them for every constant, in every run
    subn = [("mdiv", ("int", 3), ("mpow", ("int", 2), 141)), ("mdiv", ("int", 5), ("mpow", ("int", 2), 1030)), ("mdiv", ("int", 7), ("mpow", ("int", 10), 40)),
            ("mdiv", ("pi",), ("mpow", ("int", 10), 41)), ("mdiv", ("int", 3), ("mpow", ("int", 10), 310)), ("mdiv", ("mroot", ("int", 2), 2), ("mpow", ("int", 2), 140)),
            ("mdiv", ("int", 9), ("mpow", ("int", 10), 46)), ("mdiv", ("int", 3), ("mpow", ("int", 10), 325))]
    cases = []
    for ci, (cname, cexpr, hdr) in enumerate(cexprs):
        sel = (ratios + subn) if tier == "thorough" else rnd.sample(ratios, 12) + [subn[(2 * ci) % len(subn)], subn[(2 * ci + 1) % len(subn)]] + ([ratios[-3 + ci % 3]] if ci % 2 == 0 else [])
        for rt in sel:
            m = model.mag_eval(rt)
            if any(abs(v.numerator) > 20000 or v.denominator > 12 for v in m.values()):
                continue
            if c11.exact_value(m) < c11.D(2) ** -126 and model.mag_is_rational(m) and model.mag_to_fraction(m).numerator == 1:
                continue  # inverse integers in the subnormal-float zone: only probed by the two fixed cases below (see known finding N6)
            # u = C's unit divided by the ratio  =>  unit_ratio(C, u) == ratio exactly
            uexpr = f"decltype(au::AssociatedUnitT<std::decay_t<decltype({cexpr})>>{{}} / {model.mag_spell(rt)})"
            cases.append({"c": cname, "cexpr": cexpr, "uexpr": uexpr, "ratio": m, "rt": rt})
    const_includes = "\n".join(f'#include "{h}"' for _, h in consts) + "\n#include <cstdint>\n#include <type_traits>"
    n_tu = 16 if tier == "quick" else 48
    plans = []
    for ti in range(n_tu):
        part = cases[ti::n_tu]
        stmts, entries = [], {}
        sid = 1
        for j, cs in enumerate(part):
            tag = f"k{ti}_{j}"
            entries[tag] = cs
            stmts.append((sid, f'vfy::reify_const<std::decay_t<decltype({cs["cexpr"]})>, {cs["uexpr"]}>("{tag}");'))
            sid += 1
        # composition: only the unit changes, never the stored number
        for j in range(4):
            cname, cexpr, _ = rnd.choice(cexprs)
            oname = rnd.choice(names)
            while oname in ("Hertz", "Becquerel", "Celsius", "Fahrenheit", "Rankines", "Kelvins"):
                oname = rnd.choice(names)
            XS = {"7": "int", "3.25": "double", "-2.5f": "float", "11u": "unsigned", "(int8_t)5": "int8_t", "123456789012LL": "long long", "-0.0": "double", "-0.0f": "float",
                  "std::numeric_limits<double>::quiet_NaN()": "double", "std::numeric_limits<float>::infinity()": "float", "(uint8_t)200": "uint8_t", "5e-324": "double"}
            x = rnd.choice(sorted(XS))
            T = XS[x]
            forms = [("num*C", f"vfy::reify_composed(TAG, {x} * {cexpr}, ({T}){x});", "C"), ("C*num", f"vfy::reify_composed(TAG, {cexpr} * {x}, ({T}){x});", "C"),
                     ("num/C", f"vfy::reify_composed(TAG, {x} / {cexpr}, ({T}){x});", "1/C"),
                     ("q*C", f"vfy::reify_composed(TAG, au::{units[oname].maker}({x}) * {cexpr}, ({T}){x});", "O*C"),
                     ("C*q", f"vfy::reify_composed(TAG, {cexpr} * au::{units[oname].maker}({x}), ({T}){x});", "O*C"),
                     ("q/C", f"vfy::reify_composed(TAG, au::{units[oname].maker}({x}) / {cexpr}, ({T}){x});", "O/C"),
                     ("C*C", f"vfy::reify_wrapped_unit(TAG, {cexpr} * {cexpr});", "C*C"), ("C/maker", f"vfy::reify_wrapped_unit(TAG, {cexpr} / au::{units[oname].maker});", "C/O"),
                     ("maker*C", f"vfy::reify_wrapped_unit(TAG, au::{units[oname].maker} * {cexpr});", "O*C"),
                     ("C*mag", f"vfy::reify_wrapped_unit(TAG, {cexpr} * au::mag<5280>());", "C*5280"), ("C/mag", f"vfy::reify_wrapped_unit(TAG, {cexpr} / au::mag<7>());", "C/7"),
                     ("pow<2>(C)", f"vfy::reify_wrapped_unit(TAG, pow<2>({cexpr}));", "C^2"),
                     # magnitudes that are exactly one, in every position and spelling: the unit must not change at all
                     ("C*ONE", f"vfy::reify_wrapped_unit(TAG, {cexpr} * au::mag<1>());", "C"), ("ONE*C", f"vfy::reify_wrapped_unit(TAG, au::mag<1>() * {cexpr});", "C"),
                     ("C/ONE", f"vfy::reify_wrapped_unit(TAG, {cexpr} / au::mag<1>());", "C"), ("C*(5/5)", f"vfy::reify_wrapped_unit(TAG, {cexpr} * (au::mag<5>() / au::mag<5>()));", "C"),
                     ("C*pow<0>", f"vfy::reify_wrapped_unit(TAG, {cexpr} * au::pow<0>(au::mag<10>()));", "C"), ("mag*C", f"vfy::reify_wrapped_unit(TAG, au::mag<5280>() * {cexpr});", "C*5280"),
                     ("mag/C", f"vfy::reify_wrapped_unit(TAG, au::mag<5280>() / {cexpr});", "5280/C")]
            if T in ("double", "float"):
                # constant divided by a floating number / quantity: the stored number is the raw reciprocal in the same rep
                forms += [("C/q", f"vfy::reify_composed(TAG, {cexpr} / au::{units[oname].maker}({x}), ({T})1 / ({T}){x});", "C/O"),
                          ("C/num", f"vfy::reify_composed(TAG, {cexpr} / {x}, ({T})1 / ({T}){x});", "C")]
            for fname, code, unit_model in forms:
                tag = f"x{ti}_{j}_{fname}"
                entries[tag] = {"comp": fname, "c": cname, "cexpr": cexpr, "other": oname, "unit_model": unit_model}
                stmts.append((sid, code.replace("TAG", f'"{tag}"')))
                sid += 1
        # reify the units needed by the composition model
        for cname, cexpr, _ in cexprs:
            tag = f"cu{ti}_{cname}"
            entries[tag] = {"cunit": cname}
            stmts.append((sid, f'vfy::reify_unit<au::AssociatedUnitT<std::decay_t<decltype({cexpr})>>>("{tag}");'))
            sid += 1
        plans.append((ti, stmts, entries))
    results = core.pmap(lambda p: planeb.build_run(f"c16_{p[0]}", p[1], units, "G_O0", "c++14", extra_includes=const_includes), plans)
    leaves = None
    n_ev = 0
    distinct = set()
    reject = []
    pid = 1
    lf = planeb.leaf_table(units)
    leaves = {k: (v[0], v[1]) for k, v in lf.items()}
    for (ti, stmts, entries), (events, rejected, md5, err) in zip(plans, results):
        if err:
            chk.fail_inconclusive(f"C16 TU {ti} failed: {err}")
            continue
        by_sid = {s[0]: s[1] for s in stmts}
        for sid, msgs in rejected.items():
            chk.violation(f"C16|rejected|stmt={by_sid[sid][:200]}", msg=f"statement rejected by the compiler: {by_sid[sid][:300]} :: {msgs[0][:200]}")
        cunits = {}
        for ev in events:
            if ev["ev"] == "unit" and "cunit" in entries.get(ev["tag"], {}):
                cunits[entries[ev["tag"]]["cunit"]] = (model.parse_dim_event(ev["dim"]), model.parse_mag_event(ev["mag"]))
        for ev in events:
            if ev["ev"] == "const":
                cs = entries[ev["tag"]]
                n_ev += 1
                m = cs["ratio"]
                got = model.parse_mag_event(ev["ratio"])
                expr = f'{cs["c"]} in unit/({model.mag_spell(cs["rt"])})'
                if model.ekey(got) != model.ekey(m):
                    chk.violation(f"C16|ratio|{expr[:200]}", msg=f"unit_ratio of {expr[:250]} is {model.ekey(got)}, exact {model.ekey(m)}")
                    continue
                is_int = model.mag_is_integer(m)
                exact = c11.exact_value(m)
                exact_fr = Fraction(exact) if abs(exact.adjusted()) < 6000 else None
                for T, info in ev["types"].items():
                    distinct.add((cs["c"], model.ekey(m), T))
                    can = bool(info["can"])
                    key = f"T={T}|{expr[:200]}"
                    if T in c11.INT_T:
                        want = is_int and model.mag_to_fraction(m) <= c11.imax(T)
                        if can != want:
                            chk.violation(f"C16|can_store_value_in|{key}", msg=f"can_store_value_in<{T}> for {expr[:250]} = {can}, exact ratio {'fits' if want else 'does not fit'}")
                        if can and info["vals"]:
                            wv = int(model.mag_to_fraction(m)) if is_int else None
                            if any(wv is None or int(v) != wv for v in info["vals"]):
                                chk.violation(f"C16|value|{key}", msg=f"as<{T}>/in<{T}>/implicit for {expr[:250]} give {info['vals']}, exact {wv}")
                        if not want:
                            for form, body in (("as", f"auto q = ({cs['cexpr']}).as<{T}>(U{{}}); (void)q;"), ("in", f"auto v = ({cs['cexpr']}).in<{T}>(U{{}}); (void)v;"),
                                               ("implicit", f"au::Quantity<U, {T}> q = {cs['cexpr']}; (void)q;")):
                                reject.append({"id": pid, "expect": "reject", "T": T, "expr": expr, "form": form, "dedup_key": (cs["c"], model.ekey(m), T, form),
                                               "text": f"void vf_p{pid}() {{ using namespace au; using U = {cs['uexpr']}; {body} }}"})
                                pid += 1
                    else:
                        dg, emax, dmin = c11.FLT_T[T]
                        mx = c11.fmax(T)
                        band = Fraction(1, 2 ** 40)
                        if exact_fr is None:
                            too_big, normal = exact.adjusted() > 0, False
                        else:
                            too_big = exact_fr > mx * (1 + band)
                            normal = Fraction(2) ** (dmin + dg - 1) <= exact_fr < mx * (1 - band)
                        if too_big and can:
                            chk.violation(f"C16|can_store_value_in|{key}", msg=f"can_store_value_in<{T}> true for {expr[:250]} although the ratio exceeds the type's maximum")
                        if normal and not can:
                            chk.violation(f"C16|can_store_value_in|{key}", msg=f"can_store_value_in<{T}> false for {expr[:250]} although the ratio {float(exact_fr):.6g} is in range")
                        # float/double are evaluated in long double, so their subnormal band is decided accurately: a ratio of at
                        # least denorm_min is representable, one below half of it can only be stored as zero
                        if T != "long double" and exact_fr is not None and not too_big:
                            if Fraction(2) ** dmin <= exact_fr < Fraction(2) ** (dmin + dg - 1) and not can:
                                chk.violation(f"C16|can_store_value_in|{key}", msg=f"can_store_value_in<{T}> false for {expr[:250]} although the ratio ~{exact:.4E} is a representable (subnormal) {T}")
                            if exact_fr < Fraction(2) ** (dmin - 1) * (1 - band) and can:
                                chk.violation(f"C16|can_store_value_in|{key}", msg=f"can_store_value_in<{T}> true for {expr[:250]} although the ratio ~{exact:.4E} is below half the smallest positive {T}")
                        if can and info["vals"] and not too_big:
                            npow = sum(abs(v.numerator) + v.denominator - 1 for v in m.values())
                            tol = (2 + npow // 1024) if T != "long double" else (16 + npow)
                            for v in info["vals"]:
                                gv = c11.parse_hexfloat(v)
                                if gv is None or gv <= 0:
                                    chk.violation(f"C16|value_not_positive|{key}", msg=f"{expr[:250]} as {T}: {v}")
                                elif exact_fr is not None and abs(gv - exact_fr) > c11.ulp(T, exact_fr) * tol:
                                    chk.violation(f"C16|value|{key}", msg=f"{expr[:250]} as {T}: {v} is {float(abs(gv - exact_fr) / c11.ulp(T, exact_fr)):.3g} ulp from the exact ratio")
                        if too_big:
                            reject.append({"id": pid, "expect": "reject", "T": T, "expr": expr, "form": "as", "dedup_key": (cs["c"], model.ekey(m), T, "as"),
                                           "text": f"void vf_p{pid}() {{ using namespace au; using U = {cs['uexpr']}; auto q = ({cs['cexpr']}).as<{T}>(U{{}}); (void)q; }}"})
                            pid += 1
                if len(chk.cov["samples"]) < 6 and cs["c"].isupper():
                    chk.sample({"constant": cs["c"], "ratio": model.mag_spell(cs["rt"]), "can_store": {k: v["can"] for k, v in ev["types"].items()}, "int64_vals": ev["types"]["int64_t"]["vals"]})
            elif ev["ev"] == "comp":
                en = entries[ev["tag"]]
                n_ev += 1
                if not ev["value_ok"] or not ev["same_rep"]:
                    chk.violation(f'C16|composition_value|form={en["comp"]}|c={en["c"]}', msg=f'{en["comp"]} with {en["c"]}: stored number or rep changed')
                cd, cm = cunits.get(en["c"], (None, None))
                if cd is None:
                    continue
                od, om = leaves[en["other"]]
                um = en["unit_model"]
                E = model
                table = {"C": (cd, cm), "1/C": (E.einv(cd), E.einv(cm)), "O*C": (E.emul(od, cd), E.emul(om, cm)), "O/C": (E.emul(od, E.einv(cd)), E.emul(om, E.einv(cm))),
                         "C/O": (E.emul(cd, E.einv(od)), E.emul(cm, E.einv(om))), "C*C": (E.epow(cd, 2), E.epow(cm, 2)), "C^2": (E.epow(cd, 2), E.epow(cm, 2)),
                         "C*5280": (cd, E.emul(cm, E.mag_of_int(5280))), "5280/C": (E.einv(cd), E.emul(E.einv(cm), E.mag_of_int(5280))), "C/7": (cd, E.emul(cm, E.einv(E.mag_of_int(7))))}
                wd, wm = table[um]
                gd, gm = model.parse_dim_event(ev["dim"]), model.parse_mag_event(ev["mag"])
                if model.ekey(gd) != model.ekey(wd) or model.ekey(gm) != model.ekey(wm):
                    chk.violation(f'C16|composition_unit|form={en["comp"]}|c={en["c"]}|other={en["other"]}', msg=f'{en["comp"]} with {en["c"]} and {en["other"]}: result unit {model.ekey(gd)}/{model.ekey(gm)} != exact {model.ekey(wd)}/{model.ekey(wm)}')
    rnd.shuffle(reject)
    reject = reject[: (600 if tier == "quick" else 5000)]
    pre = '#include "au/au.hh"\n' + planeb.unit_includes(units) + "\n" + const_includes + "\n"
    nrej = 0
    for cfg in ([(core.GXX, "c++14")] if tier == "quick" else [(core.GXX, "c++14"), (core.CLANGXX, "c++20")]):
        pr = ccmon.ProbeRun(pre, cfg[0], cfg[1], batch=60)
        res = pr.run(reject, tag="c16r")
        byid = {p["id"]: p for p in reject}
        for pid_, r in res.items():
            nrej += 1
            if r.get("unverified"):
                continue
            if not r["rejected"]:
                p = byid[pid_]
                chk.violation(f'C16|compiles_when_not_representable|form={p["form"]}|T={p["T"]}|{p["expr"][:200]}', msg=f'{cfg[0]} {cfg[1]}: {p["form"]}<{p["T"]}> of {p["expr"][:250]} compiles although the exact ratio is not representable')
    # Fixed, seed-independent probes of the subnormal zone: the ratio itself is representable (as a subnormal) but its
    # reciprocal is not, and the library converts by dividing by the reciprocal.
    fixed = []
    for T, e in (("float", 45), ("double", 320)):
        U = f"decltype(au::AssociatedUnitT<std::decay_t<decltype(au::SPEED_OF_LIGHT)>>{{}} / au::pow<-{e}>(au::mag<10>()))"
        fixed.append({"id": len(fixed) + 1, "T": T, "e": e, "kind": "can", "expect": None, "text": f'void vf_p{len(fixed) + 1}() {{ using U = {U}; static_assert(std::decay_t<decltype(au::SPEED_OF_LIGHT)>::can_store_value_in<{T}>(U{{}}), "vf"); }}'})
        fixed.append({"id": len(fixed) + 1, "T": T, "e": e, "kind": "as", "expect": None, "text": f"void vf_p{len(fixed) + 1}() {{ using U = {U}; auto q = au::SPEED_OF_LIGHT.as<{T}>(U{{}}); (void)q; }}"})
    prf = ccmon.ProbeRun(pre, core.GXX, "c++14", batch=1)
    resf = prf.run(fixed, tag="c16f")
    for i in range(0, len(fixed), 2):
        can_ok, as_ok = not resf[fixed[i]["id"]]["rejected"], not resf[fixed[i + 1]["id"]]["rejected"]
        nrej += 2
        if can_ok != as_ok:
            chk.violation(f'C16|can_store_disagrees_with_as|T={fixed[i]["T"]}|ratio=10^-{fixed[i]["e"]}',
                          msg=f'SPEED_OF_LIGHT vs a unit 10^{fixed[i]["e"]} times larger: can_store_value_in<{fixed[i]["T"]}> is {can_ok} but as<{fixed[i]["T"]}>(u) {"compiles" if as_ok else "does not compile"}')
    chk.add_evals(n_ev * 11 + nrej, len(distinct))
    chk.cov["rule"] = ("constants: the library's constants (scanned) + make_constant of generated units; target units are the constant's own unit divided by a ratio from a grid (integers straddling every type maximum, "
                       "rationals, huge primes, irrational, powers of ten around float limits, random), so unit_ratio(C, u) is known exactly; per (C, u) all 11 types are reified (can_store_value_in, guarded as/in/implicit values); "
                       "not-representable cases become reject probes for all three spellings; composition with numbers/quantities/makers/magnitudes/constants must leave the stored number alone and give the model unit; "
                       "distinct_nontrivial = distinct (constant, ratio, type)")
    chk.notes.update({"constants": [c[0] for c in cexprs], "cases": len(cases), "reject_probes": nrej})
    return chk
