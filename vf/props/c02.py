"""C02: unit algebra is exact and canonical (Plane B)."""
from fractions import Fraction

from .. import core, model, planeb

STYLES = ["maker", "symbol", "constant"]


def swap_leaf(tree, rnd, same_dim_groups, leaves):
    """sibling of the same dimension: replace one leaf by another library unit of equal dimension"""
    k = tree[0]
    if k == "leaf":
        grp = same_dim_groups.get(model.ekey(leaves[tree[1]][0]), [tree[1]])
        return ("leaf", rnd.choice(grp))
    if k in ("mul", "div"):
        if rnd.random() < 0.5:
            return (k, swap_leaf(tree[1], rnd, same_dim_groups, leaves), tree[2])
        return (k, tree[1], swap_leaf(tree[2], rnd, same_dim_groups, leaves))
    if k in ("pow", "root"):
        return (k, swap_leaf(tree[1], rnd, same_dim_groups, leaves), tree[2])
    if k == "alias":
        return (k, tree[1], swap_leaf(tree[2], rnd, same_dim_groups, leaves))
    if k == "scale":
        return (k, swap_leaf(tree[1], rnd, same_dim_groups, leaves), tree[2], tree[3])
    if k == "prefix":
        # same dimension and magnitude, different type: a prefix spelled as a scaling
        p = model.PREFIX_BY_NAME[tree[1]]
        return ("scale", tree[2], ("mpow", ("int", p[2]), p[3]), "*")
    return tree


FRACS = [(1, 2), (1, 3), (1, 4), (1, 6), (2, 3), (3, 4), (3, 2), (5, 6), (1, 8), (3, 8), (5, 4), (1, 12)]


def frac_power(x, n, d, rnd):
    """x^(n/d) spelled one of several ways"""
    if d == 1:
        return x if n == 1 else ("pow", x, n)
    r = rnd.random()
    if d == 2 and r < 0.3:
        inner = ("alias", "sqrt", x)
    elif d == 3 and r < 0.3:
        inner = ("alias", "cbrt", x)
    elif d % 2 == 0 and d > 2 and r < 0.5:
        inner = ("root", ("root", x, 2), d // 2)          # nested roots
    else:
        inner = ("root", x, d)
    if n == 1:
        return inner
    return ("pow", inner, n) if rnd.random() < 0.6 else ("root", ("pow", x, n), d)


def gen_rational_power_tree(rnd, names):
    """Products/quotients of several rational powers of the *same* named unit (and of the same magnitude base), e.g.
    root<4>(m) * root<4>(m),  cbrt(m) * root<6>(m),  root<4>(pow<3>(m)) / root<4>(m): the exponent sums must come out
    reduced, so that every spelling of the same power is one type."""
    x = ("leaf", rnd.choice(names))
    terms = []
    total = Fraction(0)
    for _ in range(rnd.choice([2, 2, 3])):
        n, d = rnd.choice(FRACS)
        sign = 1 if rnd.random() < 0.7 else -1
        terms.append((frac_power(x, n, d, rnd), sign))
        total += sign * Fraction(n, d)
    if total == 0:
        terms.append((x, 1))
    t = None
    for term, sign in terms:
        t = term if t is None and sign > 0 else ("alias", "inverse", term) if t is None else (("mul" if sign > 0 else "div"), t, term)
    if rnd.random() < 0.5:
        y = ("leaf", rnd.choice(names))
        t = (rnd.choice(["mul", "div"]), t, y) if rnd.random() < 0.5 else ("mul", y, t)
    if rnd.random() < 0.5:
        p = rnd.choice([2, 3, 5, 7, 10])
        ms = []
        for _ in range(rnd.choice([2, 3])):
            n, d = rnd.choice(FRACS)
            m = ("mroot", ("int", p), d) if d > 1 else ("int", p)
            ms.append(m if n == 1 else ("mpow", m, n))
        mm = ms[0]
        for m in ms[1:]:
            mm = (rnd.choice(["mmul", "mdiv"]), mm, m)
        if model.mag_eval(mm):
            t = ("scale", t, mm, rnd.choice("*/"))
    return t


def is_pure(tree):
    """only products, quotients, powers and roots of named library units (no scaling, no prefix)"""
    k = tree[0]
    if k == "leaf":
        return True
    if k in ("mul", "div"):
        return is_pure(tree[1]) and is_pure(tree[2])
    if k in ("pow", "root"):
        return is_pure(tree[1])
    if k == "alias":
        return is_pure(tree[2])
    return False


def canon_mag(mm):
    """magnitude tree with every prime once, carrying its total reduced exponent"""
    out = None
    for b, f in sorted(mm.items(), key=lambda kv: str(kv[0])):
        m = ("pi",) if b == "pi" else ("int", b)
        if f.denominator != 1:
            m = ("mroot", m, f.denominator)
        if f.numerator != 1:
            m = ("mpow", m, f.numerator)
        out = m if out is None else ("mmul", out, m)
    return out


def collapse_powers(tree, leaves):
    """A model-equal spelling which the statement requires to be the *identical type*: inside a pure product/power
    subtree every named unit appears once with its total (reduced) exponent; a (possibly nested) scaling applied on top of
    such a subtree is applied once, each prime with its total reduced exponent.  Scalings are never moved across a
    product or power (the library does not, and the statement does not ask it to)."""
    if tree[0] == "scale":
        m = model.mag_eval(tree[2])
        if tree[3] == "/":
            m = model.einv(m)
        inner = tree[1]
        while inner[0] == "scale":
            mi = model.mag_eval(inner[2])
            m = model.emul(m, model.einv(mi) if inner[3] == "/" else mi)
            inner = inner[1]
        ci = collapse_powers(inner, leaves)
        if ci is None:
            return None
        cm = canon_mag(m)
        return ci if cm is None else ("scale", ci, cm, "*")
    if not is_pure(tree):
        return None
    e = model.ev(tree, leaves)
    t = None
    for name, f in sorted(e.bases.items(), key=lambda kv: (kv[1] < 0, kv[0])):
        x = ("leaf", name)
        if f.denominator != 1:
            x = ("root", x, f.denominator)
        num = f.numerator
        term = x if abs(num) == 1 else ("pow", x, abs(num))
        t = (term if num > 0 else ("alias", "inverse", term)) if t is None else (("mul" if num > 0 else "div"), t, term)
    return t


def gen_tu(ti, rnd, units, leaves, ntrees):
    names = sorted(units)
    groups = {}
    for n in names:
        groups.setdefault(model.ekey(leaves[n][0]), []).append(n)
    entries = []  # dicts: sid, tag, tree, style, kind
    filtered = {"ordering_tie": 0, "too_big": 0, "unspellable": 0}
    sid = 1
    trees = []
    guard = 0
    while len(trees) < ntrees and guard < ntrees * 30:
        guard += 1
        t = gen_rational_power_tree(rnd, names) if len(trees) % 6 == 5 else model.gen_tree(rnd, names, rnd.choice([1, 2, 2, 3, 3]))
        if model.count_leaves(t) > 8:
            filtered["too_big"] += 1
            continue
        if model.has_ordering_tie(t, leaves):
            filtered["ordering_tie"] += 1
            continue
        e = model.ev(t, leaves)
        if not model.max_exp_ok(e):
            filtered["too_big"] += 1
            continue
        trees.append(t)
    stmts = []
    rels = []
    for i, t in enumerate(trees):
        group = [("main", "unit", t)]
        for j in range(2):
            group.append((f"v{j}", "unit", model.reassociate(t, rnd)))
        for st in STYLES:
            group.append((f"s_{st}", st, t if rnd.random() < 0.5 else model.reassociate(t, rnd)))
        # scaling by a magnitude that is exactly one (mag<1>(), m/m, a product that cancels) must change nothing
        k1 = rnd.choice([2, 3, 7, 12, 1000])
        one = rnd.choice([("int", 1), ("mdiv", ("int", k1), ("int", k1)), ("mmul", ("mroot", ("int", k1), 2), ("mpow", ("mroot", ("int", k1), 2), -1)),
                          ("mdiv", ("mmul", ("pi",), ("int", k1)), ("mmul", ("int", k1), ("pi",)))])
        group.append(("one", "unit", ("scale", t, one, rnd.choice("*/"))))
        # a zeroth power is the empty product: multiplying by it must leave the very same type
        z = ("leaf", rnd.choice(names)) if rnd.random() < 0.6 else ("scale", ("leaf", rnd.choice(names)), ("int", rnd.choice([3, 1000])), "*") if rnd.random() < 0.5 else ("prefix", rnd.choice(model.PREFIXES)[0], ("leaf", rnd.choice(names)))
        group.append(("pow0", "unit", (rnd.choice(["mul", "div"]), t, ("pow", z, 0)) if rnd.random() < 0.7 else ("mul", ("pow", z, 0), t)))
        col = collapse_powers(t, leaves)
        if col is not None and model.ev(col, leaves).key() == model.ev(t, leaves).key():
            group.append(("collapsed", "unit", col))
        sib = swap_leaf(t, rnd, groups, leaves)
        sib_ok = not model.has_ordering_tie(sib, leaves) and model.max_exp_ok(model.ev(sib, leaves))
        if sib_ok:
            group.append(("sib", "unit", sib))
        for sub, style, tr in group:
            try:
                if model.has_ordering_tie(tr, leaves):
                    filtered["ordering_tie"] += 1
                    continue
                expr = model.spell(tr, style, units)
            except model.Unspellable:
                filtered["unspellable"] += 1
                continue
            tag = f"u{ti}_{i}_{sub}"
            entries.append({"sid": sid, "tag": tag, "tree": tr, "style": style, "kind": "unit", "expr": expr, "group": i, "sub": sub})
            stmts.append((sid, f'vfy::reify_unit<decltype(vfy::assoc({expr}))>("{tag}");'))
            sid += 1
        # relations: main vs sibling (same dimension by construction), main vs the next tree (arbitrary)
        main_expr = model.spell(t, "unit", units)
        others = []
        if sib_ok:
            others.append(("sib", sib))
        if i + 1 < len(trees):
            others.append(("next", trees[i + 1]))
        for nm, o in others:
            oexpr = model.spell(o, "unit", units)
            tag = f"r{ti}_{i}_{nm}"
            entries.append({"sid": sid, "tag": tag, "kind": "rel", "a": t, "b": o})
            stmts.append((sid, f'vfy::reify_relation<decltype({main_expr}), decltype({oexpr})>("{tag}");'))
            sid += 1
            ea, eb = model.ev(t, leaves), model.ev(o, leaves)
            if model.ekey(ea.dim) == model.ekey(eb.dim):
                tag = f"q{ti}_{i}_{nm}"
                entries.append({"sid": sid, "tag": tag, "kind": "ratio", "a": t, "b": o})
                stmts.append((sid, f'vfy::reify_ratio<decltype({main_expr}), decltype({oexpr})>("{tag}");'))
                sid += 1
    return entries, stmts, filtered


def tree_str(t):
    return repr(t)[:400]


def run_data_in_gate(chk, tier, units, leaves):
    """`data_in(unit)` hands out the stored number without conversion: it is the API gate of "quantity-equivalent (conversion factor
    exactly 1) if and only if exact dimension and magnitude coincide".  Accept/reject probes, const and mutable access, unit and
    maker spellings."""
    from .. import ccmon
    rnd = core.rng("c02gate", tier)
    names = sorted(units)
    probes = []
    pid = 1
    n_pairs = 40 if tier == "quick" else 300
    guard = 0
    pairs = 0
    while pairs < n_pairs and guard < n_pairs * 20:
        guard += 1
        t = model.gen_tree(rnd, names, rnd.choice([0, 1, 2]))
        if model.count_leaves(t) > 4 or model.has_ordering_tie(t, leaves):
            continue
        try:
            e = model.ev(t, leaves)
            if not model.max_exp_ok(e):
                continue
            u1 = f"decltype({model.spell(t, 'unit', units)})"
            kind = rnd.choice(["same", "reassoc", "scaled", "one", "other_dim", "scaled_by_unit_ratio"])
            if kind == "same":
                t2, equiv = t, True
            elif kind == "reassoc":
                t2, equiv = model.reassociate(t, rnd), True
            elif kind == "one":
                t2, equiv = ("scale", t, ("mdiv", ("int", 5), ("int", 5)), "*"), True
            elif kind == "scaled":
                t2, equiv = ("scale", t, ("int", rnd.choice([2, 3, 12, 1000])), rnd.choice("*/")), False
            elif kind == "scaled_by_unit_ratio":
                t2, equiv = ("scale", t, ("mdiv", ("int", 1250), ("int", 381)), "*"), False
            else:
                t2, equiv = ("mul", t, ("leaf", rnd.choice(["Seconds", "Meters", "Grams", "Amperes"]))), False
            e2 = model.ev(t2, leaves)
            if model.has_ordering_tie(("mul", t, t2), leaves) or not model.max_exp_ok(e2):
                continue
            if (e.dm_key() == e2.dm_key()) != equiv:
                continue
            u2 = f"decltype({model.spell(t2, 'unit', units)})"
        except model.Unspellable:
            continue
        pairs += 1
        rep = rnd.choice(["int", "double", "uint8_t", "float"])
        exp = "accept" if equiv else "reject"
        forms = [("mutable_unit", f"au::Quantity<U1, {rep}> q{{}}; q.data_in(U2{{}}) = {rep}{{1}};"), ("const_unit", f"const au::Quantity<U1, {rep}> q{{}}; auto x = q.data_in(U2{{}}); (void)x;"),
                 ("mutable_maker", f"au::Quantity<U1, {rep}> q{{}}; q.data_in(au::QuantityMaker<U2>{{}}) = {rep}{{1}};"), ("const_maker", f"const au::Quantity<U1, {rep}> q{{}}; auto x = q.data_in(au::QuantityMaker<U2>{{}}); (void)x;")]
        for fname, body in forms:
            probes.append({"id": pid, "expect": exp, "form": fname, "kind": kind, "u1": u1, "u2": u2, "dedup_key": (u1, u2, rep, fname.split("_")[0]),
                           "text": f"void vf_p{pid}() {{ using namespace au; using U1 = {u1}; using U2 = {u2}; {body} }}"})
            pid += 1
    pre = '#include "au/au.hh"\n' + planeb.unit_includes(units) + "\n#include <cstdint>\n"
    n = 0
    for cfg in ([(core.GXX, "c++14")] if tier == "quick" else [(core.GXX, "c++14"), (core.CLANGXX, "c++20")]):
        pr = ccmon.ProbeRun(pre, cfg[0], cfg[1], batch=100)
        res = pr.run(probes, tag="c02gate")
        by = {p["id"]: p for p in probes}
        for pid_, r in res.items():
            p = by[pid_]
            n += 1
            if r.get("unverified"):
                continue
            if p["expect"] == "reject" and not r["rejected"]:
                chk.violation(f'C02|data_in_accepts_non_equivalent|form={p["form"]}|kind={p["kind"]}|u1={p["u1"][:120]}|u2={p["u2"][:120]}', msg=f'{cfg[0]} {cfg[1]}: `data_in` ({p["form"]}) of a quantity of {p["u1"][:160]} accepts the non-equivalent unit {p["u2"][:160]} ({p["kind"]})')
            elif p["expect"] == "accept" and r["rejected"]:
                chk.violation(f'C02|data_in_rejects_equivalent|form={p["form"]}|kind={p["kind"]}|u1={p["u1"][:120]}|u2={p["u2"][:120]}', msg=f'{cfg[0]} {cfg[1]}: `data_in` ({p["form"]}) rejects the quantity-equivalent unit {p["u2"][:160]} for {p["u1"][:160]}: {(r["msgs"] or ["?"])[0][:160]}')
        if pr.n_unverified:
            chk.fail_inconclusive("data_in gate: more disagreements than could be re-checked in isolation")
    chk.notes["data_in_gate_probes"] = n
    return n


def run(chk, which="C02"):
    tier = chk.tier
    units = {u.type: u for u in model.scan_units()}
    if len(units) < 50:
        raise core.Inconclusive(f"only {len(units)} library units found under {core.INC}")
    leaves_full = planeb.leaf_table(units)
    leaves = {k: (v[0], v[1]) for k, v in leaves_full.items()}
    n_tu = 16 if tier == "quick" else 96
    ntrees = 100 if tier == "quick" else 110
    plans = []
    for ti in range(n_tu):
        rnd = core.rng("c02", tier, ti)
        plans.append((ti,) + gen_tu(ti, rnd, units, leaves, ntrees))

    def do(plan):
        ti, entries, stmts, filtered = plan
        return planeb.build_run(f"c02_{ti}", stmts, units, "G_O0", "c++14")

    results = core.pmap(do, plans)
    # cross-compiler / language-level determinism on a slice
    alt = [(core.rng("c02alt", tier).choice(["L_O0"]), "c++17"), ("G_O0", "c++20")] if tier == "quick" else [("L_O0", "c++14"), ("L_O0", "c++17"), ("L_O0", "c++20"), ("G_O0", "c++17"), ("G_O0", "c++20")]
    slice_n = 2 if tier == "quick" else 6
    alt_jobs = [(p, fl, std) for p in plans[:slice_n] for fl, std in alt]
    alt_results = core.pmap(lambda j: planeb.build_run(f"c02alt_{j[0][0]}_{j[1]}_{j[2].replace('+', 'p')}", j[0][2], units, j[1], j[2]), alt_jobs)

    global_ids = {}  # model identity key -> (tid, tag)
    n_units = n_rel = n_ratio = 0
    distinct_types = set()
    filt_total = {}
    for (ti, entries, stmts, filtered), (events, rejected, md5, err) in zip(plans, results):
        for k, v in filtered.items():
            filt_total[k] = filt_total.get(k, 0) + v
        by_sid = {e["sid"]: e for e in entries}
        by_tag = {e["tag"]: e for e in entries}
        if err:
            chk.fail_inconclusive(f"TU {ti} run failed: {err}")
            continue
        for sid, msgs in rejected.items():
            e = by_sid[sid]
            what = e.get("expr") or (tree_str(e["a"]) + " ~ " + tree_str(e["b"]))
            chk.violation(f'C02|rejected|{e["kind"]}|expr={what[:200]}', msg=f"well-formed unit expression rejected by the compiler: {what[:300]} :: {msgs[0][:200]}")
        group_tids = {}
        for ev in events:
            if ev["ev"] == "unit":
                e = by_tag[ev["tag"]]
                n_units += 1
                m = model.ev(e["tree"], leaves)
                got_dim, got_mag = model.parse_dim_event(ev["dim"]), model.parse_mag_event(ev["mag"])
                if model.ekey(got_dim) != model.ekey(m.dim) or model.ekey(got_mag) != model.ekey(m.mag):
                    chk.violation(f'C02|value|expr={e["expr"][:200]}', msg=f'{e["expr"][:300]}: library dim/mag {model.ekey(got_dim)} / {model.ekey(got_mag)} != exact {model.ekey(m.dim)} / {model.ekey(m.mag)}')
                distinct_types.add(ev["tid"])
                if e["sub"] not in ("sib", "one"):
                    key = m.key()
                    prev = global_ids.get(key)
                    if prev is None:
                        global_ids[key] = (ev["tid"], e["expr"])
                    elif prev[0] != ev["tid"]:
                        chk.violation(f'C02|identity|a={prev[1][:150]}|b={e["expr"][:150]}',
                                      msg=f"algebraically equal expressions over the same named units have different types: {prev[1][:200]}  vs  {e['expr'][:200]}")
                if len(chk.cov["samples"]) < 6 and e["sub"] == "s_maker" and model.count_leaves(e["tree"]) >= 3:
                    chk.sample({"expr": e["expr"], "dim": ev["dim"], "mag": ev["mag"], "type_id": ev["tid"][:120]})
            elif ev["ev"] == "rel":
                e = by_tag[ev["tag"]]
                n_rel += 1
                ea, eb = model.ev(e["a"], leaves), model.ev(e["b"], leaves)
                same_dim = model.ekey(ea.dim) == model.ekey(eb.dim)
                equiv = same_dim and model.ekey(ea.mag) == model.ekey(eb.mag)
                if bool(ev["same_dim"]) != same_dim or bool(ev["qty_equiv"]) != equiv:
                    chk.violation(f'C02|relation|a={tree_str(e["a"])[:150]}|b={tree_str(e["b"])[:150]}',
                                  msg=f"has_same_dimension/are_units_quantity_equivalent = {ev['same_dim']}/{ev['qty_equiv']}, exact model says {same_dim}/{equiv}")
            elif ev["ev"] == "ratio":
                e = by_tag[ev["tag"]]
                n_ratio += 1
                ea, eb = model.ev(e["a"], leaves), model.ev(e["b"], leaves)
                want = model.emul(ea.mag, model.einv(eb.mag))
                got = model.parse_mag_event(ev["mag"])
                equiv = model.ekey(ea.mag) == model.ekey(eb.mag)
                if model.ekey(got) != model.ekey(want) or bool(ev["fn_equiv"]) != equiv or not ev["fn_same_dim"]:
                    chk.violation(f'C02|ratio|a={tree_str(e["a"])[:150]}|b={tree_str(e["b"])[:150]}',
                                  msg=f"unit_ratio = {model.ekey(got)}, exact {model.ekey(want)}; are_units_quantity_equivalent()={ev['fn_equiv']}")
    # determinism across configurations
    md5_main = {p[0]: r[2] for p, r in zip(plans, results)}
    cfg_checked = 0
    for (p, fl, std), (events, rejected, md5, err) in zip(alt_jobs, alt_results):
        if err:
            chk.fail_inconclusive(f"alt config {fl} {std} TU {p[0]} failed: {err}")
            continue
        cfg_checked += 1
        if rejected:
            e = {x["sid"]: x for x in p[1]}[next(iter(rejected))]
            chk.violation(f'C02|rejected_in_config|{fl}|{std}|expr={str(e.get("expr"))[:200]}', msg=f"expression accepted by g++ c++14 but rejected under {fl} {std}")
        elif md5 != md5_main[p[0]]:
            chk.violation(f'C02|config_diff|{fl}|{std}|tu={p[0]}', msg=f"reified trace of TU {p[0]} differs between g++ c++14 and {fl} {std}")
    n_gate = run_data_in_gate(chk, tier, units, leaves)
    nontrivial = len(distinct_types)
    chk.add_evals(n_units + n_rel + n_ratio + n_gate, nontrivial)
    chk.cov["rule"] = ("seeded random unit-expression trees (depth<=3, <=8 leaves) over the scanned library units, 32 prefixes, integer/rational/pi magnitudes, integer powers and roots; "
                       "each tree is reified in its written form, 2 re-associations, maker/symbol/constant spellings and a same-dimension sibling; evaluations = reified units + relation + ratio events; "
                       "distinct_nontrivial = distinct library type ids observed")
    chk.notes.update({"library_units": len(units), "translation_units": n_tu, "reified_units": n_units, "relations": n_rel, "ratios": n_ratio,
                      "identity_classes": len(global_ids), "filtered": filt_total, "alt_configurations_compared": cfg_checked})
    chk.assumptions += [
        "dimension and magnitude of each named library unit are taken from the library's own reified answer in the same run; the algebra on top is recomputed exactly",
        "trees putting two distinct named units of equal dimension and magnitude in one product are filtered (documented ordering limitation; origin ignored, which only filters more)",
        "type identity is demanded for expressions whose model canonical form (named-unit exponents + overall scale factor) coincides",
    ]
    return chk
