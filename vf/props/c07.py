"""C07: the common unit is the GCD unit, symmetric in its inputs (Plane B)."""
import itertools
from fractions import Fraction

from .. import core, model, planeb


def gcd_mag(mags):
    """base-wise minimum exponent, a missing base counting as exponent 0"""
    bases = set()
    for m in mags:
        bases |= set(m)
    out = {}
    for b in bases:
        e = min(m.get(b, Fraction(0)) for m in mags)
        if e != 0:
            out[b] = e
    return out


def is_pos_int_mag(m):
    return all(k != "pi" and v.denominator == 1 and v > 0 for k, v in m.items())


def rational_ratio(a, b):
    return model.mag_is_rational(model.emul(a, model.einv(b)))


SCALES = [("int", 2), ("int", 3), ("int", 12), ("int", 1000), ("int", 5280), ("mdiv", ("int", 2), ("int", 3)), ("mdiv", ("int", 5), ("int", 9)), ("mdiv", ("int", 1250), ("int", 381)),
          ("mdiv", ("int", 1), ("int", 7)), ("mpow", ("int", 2), 40), ("mdiv", ("mpow", ("int", 2), 40), ("mpow", ("int", 3), 25)), ("mdiv", ("int", 1099511627689), ("int", 1099511627563)),
          ("int", 1099511627689), ("mdiv", ("int", 6), ("int", 35)), ("mdiv", ("int", 10), ("int", 21)), ("mdiv", ("int", 15), ("int", 14)), ("int", 360), ("mdiv", ("int", 1), ("int", 60))]
IRR = [("pi",), ("mdiv", ("pi",), ("int", 180)), ("mroot", ("int", 2), 2), ("mpow", ("pi",), 2), ("mmul", ("pi",), ("int", 3))]


def mag_spell_map(m):
    """exponent map -> C++ magnitude expression (independent of how the library would spell it)"""
    parts = []
    for b, e in sorted(m.items(), key=lambda kv: str(kv[0])):
        base = "au::Magnitude<au::Pi>{}" if b == "pi" else f"au::mag<{b}ull>()"
        if e.denominator != 1:
            base = f"au::root<{e.denominator}>({base})"
        parts.append(base if e.numerator == 1 else f"au::pow<{e.numerator}>({base})")
    return "(" + " * ".join(parts) + ")" if parts else "au::mag<1>()"


ROOT_BASES = [2, 3, 5, 7, 10]


def gen_equal_mag_list(rnd, by_dim, leaves):
    """Lists that contain two *distinct types of equal magnitude* which the library's documented tie-breakers
    separate: a named unit and an anonymous scaling of another named unit (`Yards` vs `Feet * 3`), or two
    anonymous scalings of different named units with different scale factors (`Feet * 3` vs `Inches * 36`).
    Two distinct *named* units of equal magnitude are the documented exclusion and are never generated."""
    dims = [d for d, ns in by_dim.items() if d != () and len(ns) >= 2]
    for _ in range(40):
        d = rnd.choice(dims)
        a, b = rnd.sample(by_dim[d], 2)
        ma, mb = leaves[a][1], leaves[b][1]
        if model.ekey(ma) == model.ekey(mb):
            continue
        ratio = model.emul(ma, model.einv(mb))       # A = B * ratio
        if not all(abs(v.numerator) <= 40 and v.denominator <= 3 for v in ratio.values()):
            continue
        if rnd.random() < 0.5:
            items = [(f"au::{a}", ma, a), (f"decltype(au::{b}{{}} * {mag_spell_map(ratio)})", ma, f"{b}*[{a}/{b}]")]
        else:
            k = rnd.choice([2, 3, 7, 12])
            km = model.mag_of_int(k)
            items = [(f"decltype(au::{a}{{}} * {mag_spell_map(km)})", model.emul(ma, km), f"{a}*{k}"),
                     (f"decltype(au::{b}{{}} * {mag_spell_map(model.emul(ratio, km))})", model.emul(ma, km), f"{b}*[{k}*{a}/{b}]")]
        if rnd.random() < 0.5:
            c = rnd.choice(by_dim[d])
            sc = rnd.choice(SCALES[:11])
            mc = model.emul(leaves[c][1], model.mag_eval(sc))
            if model.ekey(mc) not in {model.ekey(x[1]) for x in items}:
                items.append((f"decltype(au::{c}{{}} * {model.mag_spell(sc)})", mc, f"{c}*{model.mag_spell(sc)}"))
        rnd.shuffle(items)
        if all(rational_ratio(x[1], y[1]) for x in items for y in items):
            return items
    return None


L_ = lambda n: ("leaf", n)
# distinct *products* of named units that are quantity-equivalent (coherent SI units, magnitude 1): the ordering of unit products
# has to break the tie the same way whatever the argument order
EQUIV_PRODUCTS = {
    "energy": [("mul", L_("Newtons"), L_("Meters")), ("mul", L_("Watts"), L_("Seconds")), ("mul", L_("Pascals"), ("pow", L_("Meters"), 3)), ("mul", L_("Volts"), L_("Coulombs")), L_("Joules"),
               ("mul", ("mul", L_("Volts"), L_("Amperes")), L_("Seconds"))],
    "power": [("div", L_("Joules"), L_("Seconds")), ("mul", L_("Volts"), L_("Amperes")), ("div", ("mul", L_("Newtons"), L_("Meters")), L_("Seconds")), L_("Watts")],
    "charge": [("mul", L_("Amperes"), L_("Seconds")), ("mul", L_("Farads"), L_("Volts")), L_("Coulombs"), ("div", L_("Webers"), L_("Ohms"))],
    "pressure": [("div", L_("Newtons"), ("pow", L_("Meters"), 2)), ("div", L_("Joules"), ("pow", L_("Meters"), 3)), L_("Pascals")],
    "voltage": [("div", L_("Watts"), L_("Amperes")), ("div", L_("Joules"), L_("Coulombs")), L_("Volts"), ("div", L_("Webers"), L_("Seconds")), ("mul", L_("Amperes"), L_("Ohms"))],
}


def gen_equiv_product_list(rnd, leaves, units):
    fam = rnd.choice(sorted(EQUIV_PRODUCTS))
    trees = rnd.sample(EQUIV_PRODUCTS[fam], min(len(EQUIV_PRODUCTS[fam]), rnd.choice([2, 3, 3, 4])))
    items = []
    for t in trees:
        e = model.ev(t, leaves)
        expr = f"au::{t[1]}" if t[0] == "leaf" else f"decltype({model.spell(t, 'unit', units)})"
        items.append((expr, e.mag, model.spell(t, "unit", units).replace("au::", "").replace("{}", "")))
    if len({model.ekey(x[1]) for x in items}) != 1:
        raise core.Inconclusive(f"equivalent-product table: {fam} members do not have one magnitude (unit definitions changed?)")
    if rnd.random() < 0.4:  # plus a scaled member, so that the common unit is not simply one of them
        sc = rnd.choice(SCALES[:11])
        t = trees[0]
        items.append((f"decltype({model.spell(t, 'unit', units)} * {model.mag_spell(sc)})", model.emul(items[0][1], model.mag_eval(sc)), f"({items[0][2]})*{model.mag_spell(sc)}"))
    rnd.shuffle(items)
    return items


def gen_list(rnd, by_dim, leaves, units, named_decls, irrational=False):
    """-> list of (type expression, mag, label) of one dimension, pairwise distinct magnitudes"""
    dims = [d for d, ns in by_dim.items() if d != ()]
    d = rnd.choice(dims)
    pool = by_dim[d]
    n = rnd.choice([2, 2, 3, 3, 4, 4, 5, 6]) if not irrational else rnd.choice([2, 2, 3, 3, 4])
    items = []
    seen_mag = set()
    idents = []
    tries = 0
    # a root shared by every member with exponents of both signs in one residue class: the pairwise ratios stay
    # rational (integer powers of the radicand) while the same prime carries non-integer exponents of opposite sign
    shared = None
    if not irrational and rnd.random() < 0.3:
        k = rnd.choice([2, 2, 3, 4])
        shared = (("mroot", ("int", rnd.choice(ROOT_BASES)), k), k, rnd.randrange(1, k))
    while len(items) < n and tries < 50:
        tries += 1
        base = rnd.choice(pool)
        bm = leaves[base][1]
        r = rnd.random()
        if r < 0.35 and not shared:
            expr, m, nm = f"au::{base}", bm, base
        else:
            sc = rnd.choice(IRR if (irrational and rnd.random() < 0.5) else SCALES)
            # pi on both sides keeps pairwise ratios rational while the magnitudes themselves are irrational
            if not irrational and rnd.random() < 0.15:
                sc = ("mmul", sc, ("pi",))
            if shared:
                rt, k, c = shared
                sc = ("mmul", sc, ("mpow", rt, rnd.choice([c, c - k])))
            sm = model.mag_eval(sc)
            m = model.emul(bm, sm)
            if r < 0.7:
                expr, nm = f"decltype(au::{base}{{}} * {model.mag_spell(sc)})", f"{base}*{model.mag_spell(sc)}"
            else:
                name = f"VfN{len(named_decls)}"
                named_decls.append(f"struct {name} : decltype(au::{base}{{}} * {model.mag_spell(sc)}) {{}};")
                expr, nm = name, f"{name}={base}*{model.mag_spell(sc)}"
        k = model.ekey(m)
        if k in seen_mag:
            continue
        # named identities the library will put into one ordered list: the item itself when it is a named type, and the
        # named base of an anonymous scaled item (CommonUnit's label/simplification machinery sorts the *unscaled* units).
        # Two distinct named units of equal magnitude are the documented ordering limitation -> never generated.
        ident = (nm.split("=")[0], k) if (expr.startswith("au::") or expr.startswith("VfN")) else (base, model.ekey(bm))
        if any(i[1] == ident[1] and i[0] != ident[0] for i in idents):
            continue
        idents.append(ident)
        seen_mag.add(k)
        items.append((expr, m, nm))
    if len(items) < 2:
        return None
    allrat = all(rational_ratio(a[1], b[1]) for a in items for b in items)
    if irrational == allrat:
        return None
    return items


def run(chk, which="C07"):
    tier = chk.tier
    units = {u.type: u for u in model.scan_units()}
    lf = planeb.leaf_table(units)
    leaves = {k: (v[0], v[1]) for k, v in lf.items()}
    by_dim = {}
    for n, (d, m) in leaves.items():
        if n in ("Celsius", "Fahrenheit", "Rankines", "Becquerel"):
            continue  # share dimension+magnitude with another named unit or carry an origin
        by_dim.setdefault(model.ekey(d), []).append(n)
    by_dim = {d: ns for d, ns in by_dim.items() if len(ns) >= 2}
    n_tu = 16 if tier == "quick" else 64
    per_tu = 40 if tier == "quick" else 125
    plans = []
    for ti in range(n_tu):
        rnd = core.rng("c07", tier, ti)
        decls = []
        stmts, entries = [], {}
        sid = 1
        lists = []
        while len(lists) < per_tu:
            r_ = rnd.random()
            if r_ < 0.08:
                L = gen_equiv_product_list(rnd, leaves, units)
            elif r_ < 0.24:
                L = gen_equal_mag_list(rnd, by_dim, leaves)
            else:
                L = gen_list(rnd, by_dim, leaves, units, decls, irrational=(rnd.random() < 0.15))
            if L:
                lists.append(L)
        for li, L in enumerate(lists):
            perms = list(itertools.permutations(range(len(L))))
            if len(L) >= 5:  # 120 / 720 orders: the identity, its reverse, every rotation and a random dozen
                idx = list(range(len(L)))
                keep = {tuple(idx), tuple(reversed(idx))} | {tuple(idx[r:] + idx[:r]) for r in range(len(L))}
                keep |= set(rnd.sample(perms, 12))
                perms = sorted(keep)
            for pi_, perm in enumerate(perms):
                tag = f"c{ti}_{li}_p{pi_}"
                entries[tag] = {"list": L, "li": li, "kind": "perm", "perm": perm}
                stmts.append((sid, f'vfy::reify_unit<au::CommonUnitT<{", ".join(L[i][0] for i in perm)}>>("{tag}");'))
                sid += 1
            # repetition variant
            rep = list(range(len(L))) + [rnd.randrange(len(L))]
            rnd.shuffle(rep)
            tag = f"c{ti}_{li}_rep"
            entries[tag] = {"list": L, "li": li, "kind": "perm", "perm": tuple(rep)}
            stmts.append((sid, f'vfy::reify_unit<au::CommonUnitT<{", ".join(L[i][0] for i in rep)}>>("{tag}");'))
            sid += 1
            common = f'au::CommonUnitT<{", ".join(x[0] for x in L)}>'
            for i, x in enumerate(L):
                tag = f"c{ti}_{li}_r{i}"
                entries[tag] = {"list": L, "li": li, "kind": "ratio", "i": i}
                stmts.append((sid, f'vfy::reify_ratio<{x[0]}, {common}>("{tag}");'))
                sid += 1
                tag = f"c{ti}_{li}_in{i}"
                entries[tag] = {"list": L, "li": li, "kind": "input", "i": i}
                stmts.append((sid, f'vfy::reify_unit<{x[0]}>("{tag}");'))
                sid += 1
            if len(L) >= 3:
                # nesting shapes: a pair (or triple) folded first, on either side of the outer call, incl. two multi-element packs
                cu = lambda idx: (f"au::CommonUnitT<{', '.join(L[i][0] for i in idx)}>" if len(idx) > 1 else L[idx[0]][0])
                n = len(L)
                shapes = []
                for pair in (itertools.combinations(range(n), 2) if n <= 4 else []):
                    rest = [i for i in range(n) if i not in pair]
                    if n == 4:
                        shapes += [(pair, tuple(rest)), (tuple(rest), pair)]      # CommonUnitT<CommonUnitT<a,b>, CommonUnitT<c,d>>
                    else:
                        shapes += [(pair, (rest[0],)), ((rest[0],), pair)]        # CommonUnitT<CommonUnitT<a,b>, c> and CommonUnitT<c, CommonUnitT<a,b>>
                if n == 4:
                    shapes += [((0, 1, 2), (3,)), ((0,), (1, 2, 3)), ((3,), (2, 0, 1))]
                if n >= 5:
                    for _ in range(8):
                        idx = list(range(n))
                        rnd.shuffle(idx)
                        cut = rnd.randrange(1, n)
                        shapes.append((tuple(idx[:cut]), tuple(idx[cut:])))
                shapes = [((0, 1), tuple(range(2, n)))] + rnd.sample(shapes, min(len(shapes), 5 if tier == "quick" else 9))
                for ni, (g1, g2) in enumerate(shapes):
                    if ni == 0:
                        nested = f"au::CommonUnitT<au::CommonUnitT<{L[0][0]}, {L[1][0]}>, {', '.join(x[0] for x in L[2:])}>"
                    else:
                        nested = f"au::CommonUnitT<{cu(g1)}, {cu(g2)}>"
                    tag = f"c{ti}_{li}_nest{ni}"
                    entries[tag] = {"list": L, "li": li, "kind": "nest", "shape": nested}
                    stmts.append((sid, f'vfy::reify_relation<{nested}, {common}>("{tag}");'))
                    sid += 1
            # std::common_type of quantities is symmetric
            a, b = L[0][0], L[1][0]
            tag = f"c{ti}_{li}_ct"
            entries[tag] = {"list": L, "li": li, "kind": "ct"}
            stmts.append((sid, f'vfy::reify_relation<typename std::common_type_t<au::Quantity<{a}, double>, au::Quantity<{b}, int>>::Unit, typename std::common_type_t<au::Quantity<{b}, int>, au::Quantity<{a}, double>>::Unit>("{tag}");'))
            sid += 1
        plans.append((ti, stmts, entries, "\n".join(decls), lists))
    results = core.pmap(lambda p: planeb.build_run(f"c07_{p[0]}", p[1], units, "G_O0", "c++14", decls=p[3], extra_includes="#include <type_traits>"), plans)
    alt_jobs = [(p, "L_O0", "c++17") for p in plans[: (2 if tier == "quick" else 8)]]
    alt_results = core.pmap(lambda j: planeb.build_run(f"c07alt_{j[0][0]}", j[0][1], units, j[1], j[2], decls=j[0][3], extra_includes="#include <type_traits>"), alt_jobs)
    n_ev = 0
    nlists = 0
    nontrivial = 0
    for (ti, stmts, entries, decls, lists), (events, rejected, md5, err) in zip(plans, results):
        if err:
            chk.fail_inconclusive(f"C07 TU {ti} failed: {err}")
            continue
        by_sid = {s[0]: s[1] for s in stmts}
        for sid, msgs in rejected.items():
            chk.violation(f"C07|rejected|stmt={by_sid[sid][:220]}", msg=f"common unit of a valid list rejected by the compiler: {by_sid[sid][:300]} :: {msgs[0][:200]}")
        per_list = {}
        for ev in events:
            if ev.get("tag") in entries:
                per_list.setdefault(entries[ev["tag"]]["li"], []).append((entries[ev["tag"]], ev))
        for li, evs in per_list.items():
            L = lists[li]
            nlists += 1
            desc = " , ".join(x[2] for x in L)[:260]
            mags = [x[1] for x in L]
            allrat = all(rational_ratio(a, b) for a in mags for b in mags)
            tids = {}
            input_tids = {}
            common_mag = None
            for en, ev in evs:
                n_ev += 1
                if en["kind"] == "perm":
                    tids.setdefault(ev["tid"], en["perm"])
                    common_mag = model.parse_mag_event(ev["mag"])
                elif en["kind"] == "input":
                    input_tids[en["i"]] = ev["tid"]
            if len(tids) > 1:
                chk.violation(f"C07|order_dependent|list={desc}", msg=f"CommonUnitT gives {len(tids)} different types over the permutations/repetitions of [{desc}]: orders {list(tids.values())[:3]}")
            if allrat and common_mag is not None:
                nontrivial += 1
                g = gcd_mag(mags)
                for en, ev in evs:
                    if en["kind"] == "ratio":
                        r = model.parse_mag_event(ev["mag"])
                        want = model.emul(mags[en["i"]], model.einv(g))
                        if not is_pos_int_mag(r) and r != {}:
                            chk.violation(f"C07|not_divisor|list={desc}|i={en['i']}", msg=f"input {L[en['i']][2]} / common unit = {model.ekey(r)} is not a positive integer for [{desc}]")
                        elif model.ekey(r) != model.ekey(want):
                            chk.violation(f"C07|not_greatest|list={desc}|i={en['i']}", msg=f"input/common = {model.ekey(r)} but the GCD unit would give {model.ekey(want)} (the ratios are not jointly coprime) for [{desc}]")
                if model.ekey(common_mag) != model.ekey(g):
                    chk.violation(f"C07|magnitude|list={desc}", msg=f"common unit magnitude {model.ekey(common_mag)} != base-wise GCD {model.ekey(g)} for [{desc}]")
                # an input that already is the GCD unit must be the result
                qualifying = [i for i, m in enumerate(mags) if model.ekey(m) == model.ekey(g) and i in input_tids]
                if len(qualifying) > 1:
                    # several inputs already are the GCD unit (distinct types of equal magnitude): the result must be one of them
                    if tids and not any(input_tids[i] in tids for i in qualifying):
                        chk.violation(f"C07|input_not_reused|list={desc}", msg=f"inputs {[L[i][2] for i in qualifying]} already are the common unit of [{desc}] but the result is none of them")
                    qualifying = []
                for i in qualifying:
                    m = mags[i]
                    if model.ekey(m) == model.ekey(g) and i in input_tids and tids and input_tids[i] not in tids:
                        chk.violation(f"C07|input_not_reused|list={desc}|i={i}", msg=f"input {L[i][2]} already is the common unit of [{desc}] but the result is a different type")
            for en, ev in evs:
                if en["kind"] == "nest" and allrat and not ev["qty_equiv"]:  # (promised for rational pairwise ratios only)
                    chk.violation(f"C07|nesting|list={desc}", msg=f"nested {en['shape'][:300]} is not quantity-equivalent to the flat CommonUnitT of [{desc}]")
                if en["kind"] == "ct" and not ev["same_type"]:
                    chk.violation(f"C07|common_type_asymmetric|list={desc}", msg=f"std::common_type_t<Q1,Q2> and <Q2,Q1> have different units for [{desc}]")
            if len(chk.cov["samples"]) < 6 and allrat and len(L) >= 3:
                chk.sample({"inputs": [x[2] for x in L], "common_magnitude": model.ekey(common_mag) if common_mag is not None else None, "permutations_checked": len([1 for en, _ in evs if en["kind"] == "perm"])})
    md5_main = {p[0]: r[2] for p, r in zip(plans, results)}
    for (p, fl, std), (events, rejected, md5, err) in zip(alt_jobs, alt_results):
        if err:
            chk.fail_inconclusive(f"alt config failed: {err}")
        elif rejected or md5 != md5_main[p[0]]:
            chk.violation(f"C07|config_diff|{fl}|{std}|tu={p[0]}", msg=f"common-unit trace of TU {p[0]} differs between g++ c++14 and {fl} {std}")
    chk.add_evals(n_ev, nontrivial)
    chk.cov["rule"] = ("2- to 6-element lists of same-dimension units (library units, anonymous and named scaled units with rational scale factors up to 2^40-sized numerators/denominators, pi on both sides, "
                       "and a share of irrational-ratio lists); every permutation (for 5 and 6 elements: identity, reverse, rotations and a random dozen) and one repetition variant is reified; the model computes the base-wise GCD magnitude and checks divisibility, joint coprimality, "
                       "input reuse, permutation invariance, nesting equivalence, common_type symmetry; distinct_nontrivial = lists with all-rational ratios that were fully judged")
    chk.notes.update({"lists": nlists, "translation_units": n_tu})
    chk.assumptions += ["lists never contain two distinct *named* units of equal magnitude (documented ordering limitation); equal-magnitude pairs that the documented tie-breakers separate "
                        "(named vs anonymous scaled, two anonymous scalings with different factors) are generated on purpose"]
    return chk
