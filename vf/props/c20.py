"""C20: behaviour is independent of packaging, language standard and compiler (differential execution)."""
import glob
import hashlib
import json
import zlib
import os
import re

from .. import ccmon, core, model
from .c16 import scan_constants

REPCLASSES = {"floating": "double", "float32": "float", "int32": "int", "int64": "int64_t", "subint": "int8_t", "subint16": "int16_t", "unsigned": "uint32_t", "usub": "uint8_t"}


# ---- programs -----------------------------------------------------------------------------------------
def program_for_selection(sel_units, sel_consts, io, units):
    """Uses exactly the selected units / constants.  Output must be identical for single-file and multi-header builds."""
    L = ["#include <cstdio>", "#include <chrono>", "#include <cstring>"]
    if io:
        L.append("#include <sstream>")
    L.append("#if defined(VF_SINGLE)")
    L.append('#include "au.hh"')
    L.append('#include "au.hh"  // included twice on purpose')
    L.append("#else")
    L.append('#include "au/au.hh"')
    if io:
        L.append('#include "au/io.hh"')
    for u in sel_units:
        L.append(f'#include "{units[u].header}"')
    for c, h in sel_consts:
        L.append(f'#include "{h}"')
    L.append('#include "au/au.hh"')
    L.append("#endif")
    L.append("using namespace au;")
    # (a product of two selected units may cancel to a raw number - ohms * siemens - which has neither .in() nor a unit)
    L.append("inline double vf_num(double x) { return x; }")
    L.append("template <typename U, typename R> double vf_num(au::Quantity<U, R> q) { return q.in(U{}); }")
    L.append('inline const char *vf_lab(double) { return "(raw number)"; }')
    L.append("template <typename U, typename R> const char *vf_lab(au::Quantity<U, R>) { return unit_label(U{}); }")
    L.append("#if defined(VF_SECOND_TU)")
    L.append("double vf_second_tu() { return (mag<3>() == mag<3>()) ? 1.0 : 0.0; }")
    L.append("#else")
    L.append("double vf_second_tu();")
    L.append("int main() {")
    L.append('  printf("start %d\\n", (int)vf_second_tu());')
    for u in sel_units:
        un = units[u]
        L.append(f'  {{ auto q = {un.maker}(3.5); auto r = q + q; printf("{u} %.17g %.17g %s %zu\\n", r.in({un.maker}), (q * 2.0 / 4.0).in({un.maker}), unit_label({un.type}{{}}), sizeof(unit_label({un.type}{{}}))); }}')
        L.append(f'  {{ auto q = {un.maker}(7); printf("{u}_int %d %d\\n", (q % {un.maker}(4)).in({un.maker}), (int)(q > {un.maker}(6))); }}')
        if io:
            L.append(f'  {{ std::ostringstream os; os << {un.maker}(int8_t{{65}}) << "|" << {un.maker}(1.25); printf("{u}_io %s\\n", os.str().c_str()); }}')
    for a in sel_units:
        for b in sel_units:
            if a < b:
                L.append(f'  {{ auto p = {units[a].maker}(2.0) * {units[b].maker}(4.0); printf("{a}*{b} %.17g %s\\n", vf_num(p), vf_lab(p)); }}')
                break
    for c, h in sel_consts:
        L.append(f'  {{ auto q = {c}.as<double>(); printf("{c} %.17g %s\\n", q.in(decltype(q)::unit), unit_label(decltype(q)::unit)); }}')
    L.append('  { auto d = std::chrono::milliseconds{1500}; auto q = as_quantity(d); std::chrono::milliseconds e = q; printf("chrono %lld %lld\\n", (long long)q.in(decltype(q)::unit), (long long)e.count()); }')
    L.append('  { Quantity<UnitProductT<>, int> z = ZERO; printf("zero %d %d\\n", z.in(UnitProductT<>{}), (int)(z == ZERO)); }')
    L.append('  printf("done\\n");')
    L.append("  return 0;")
    L.append("}")
    L.append("#endif")
    return "\n".join(L) + "\n"


def api_statements(rep, tier="quick"):
    R = rep
    integral = rep not in ("double", "float")
    S = []
    def add(code):
        S.append(code)
    v = lambda x: f"({R})({x})"
    add(f"auto q = meters({v(5)}); out(q.in(meters));")
    add(f"auto q = meters({v(5)}) + meters({v(3)}); out(q.in(meters));")
    add(f"auto q = meters({v(5)}) - meters({v(3)}); out(q.in(meters));")
    add(f"auto q = -meters({v(5)}); out(q.in(meters));")
    add(f"auto q = +meters({v(5)}); out(q.in(meters));")
    add(f"auto q = meters({v(5)}) * {v(3)}; out(q.in(meters));")
    add(f"auto q = {v(3)} * meters({v(5)}); out(q.in(meters));")
    add(f"auto q = meters({v(6)}) / {v(3)}; out(q.in(meters));")
    add(f"auto q = meters({v(5)}); q += meters({v(1)}); q -= meters({v(2)}); q *= {v(3)}; q /= {v(2)}; out(q.in(meters));")
    add(f"out((int)(meters({v(5)}) < meters({v(6)}))); out((int)(meters({v(5)}) == meters({v(5)}))); out((int)(meters({v(5)}) >= meters({v(6)})));")
    add(f"auto q = meters({v(6)}) * seconds({v(2)}); out(q.in(meters * seconds));")
    add(f"auto q = meters({v(6)}) / unblock_int_div(seconds({v(2)})); out(q.in(meters / second));")
    add(f"auto q = meters({v(6)}) / seconds({v(2)}); out(q.in(meters / second));")
    add(f"auto q = kilo(meters)({v(3)}); out(q.coerce_in(meters));")
    add(f"auto q = kilo(meters)({v(3)}); out(q.in(meters));")
    add(f"auto q = meters({v(3)}); out(q.in(kilo(meters)));")
    add(f"auto q = meters({v(3)}); out(q.coerce_in(kilo(meters)));")
    add(f"Quantity<Meters, {R}> q = kilo(meters)({v(2)}); out(q.in(meters));")
    add(f"Quantity<Kilo<Meters>, {R}> q = meters({v(2)}); out(q.in(meters));")
    add(f"Quantity<Meters, double> q = meters({v(2)}); out(q.in(meters));")
    add(f"Quantity<Meters, {R}> q = meters(2.5); out(q.in(meters));")
    add(f"auto q = meters({v(2)}) + kilo(meters)({v(1)}); out(q.in(meters));")
    add(f"out((int)(meters({v(2)}) < kilo(meters)({v(1)})));")
    add(f"auto q = meters({v(2)}) + seconds({v(1)}); out(q.in(meters));")
    add(f"out((int)(meters({v(2)}) == seconds({v(2)})));")
    add(f"auto q = meters({v(5)}); out((int)(q > ZERO)); out((q + ZERO).in(meters)); Quantity<Meters, {R}> z = ZERO; out(z.in(meters));")
    add(f"auto q = rep_cast<double>(meters({v(5)})); out(q.in(meters));")
    add(f"auto q = meters({v(5)}).as<double>(feet); out(q.in(feet));")
    add(f"out(is_conversion_lossy(meters({v(5)}), kilo(meters))); out(will_conversion_overflow(meters({v(100)}), milli(meters)));")
    add(f"auto p = meters_pt({v(5)}); auto d = p - meters_pt({v(2)}); out(d.in(meters)); out((p + meters({v(1)})).in(meters_pt));")
    add(f"auto p = meters_pt({v(5)}) + meters_pt({v(2)}); out(p.in(meters_pt));")
    add(f"auto q = round_as(meters, centi(meters)({v(100)})); out(q.in(meters));")
    add(f"auto q = int_pow<2>(meters({v(3)})); out(q.in(squared(meters)));")
    add(f"out(unit_label(Meters{{}} / Seconds{{}})); out((double)sizeof(unit_label(Kilo<Meters>{{}})));")
    add(f"auto q = SPEED_OF_LIGHT.as<{R}>(meters / second); out(q.in(meters / second));")
    add(f"auto q = SPEED_OF_LIGHT.as<{R}>(kilo(meters) / second); out(q.in(kilo(meters) / second));")
    add(f"auto q = {v(2)} * SPEED_OF_LIGHT; out(q.in(decltype(q)::unit));")
    add(f"std::ostringstream os; os << meters({v(65)}) << ' ' << (meters / second)({v(2)}); out(os.str().c_str());")
    add(f"auto q = as_quantity(std::chrono::duration<{R}, std::milli>{{{v(7)}}}); out(q.in(milli(seconds)));")
    add(f"std::chrono::duration<{R}, std::milli> d = milli(seconds)({v(7)}); out(d.count());")
    add(f"auto q = meters({v(7)}) % meters({v(4)}); out(q.in(meters));")
    add(f"auto q = min(meters({v(7)}), kilo(meters)({v(1)})); out(q.in(meters)); auto r = max(meters({v(7)}), meters({v(4)})); out(r.in(meters));")
    add(f"auto q = inverse_as(micro(seconds), hertz({v(5)})); out(q.in(micro(seconds)));")
    add(f"auto q = inverse_as(seconds, hertz({v(5)})); out(q.in(seconds));")
    add(f"auto q = sin(degrees({v(30)})); out(q);")
    add(f"auto q = sqrt(squared(meters)({v(16)})); out(q.in(meters));")
    add(f"auto q = meters({v(5)}); out(as_raw_number(q / meters({v(1)})));")
    add(f"auto q = percent({v(50)}); out(as_raw_number(q));")
    add(f"constexpr auto q = meters({v(5)}) + meters({v(1)}); static_assert(q.in(meters) == {v(6)}, \"vf\"); out(q.in(meters));")
    # constant evaluation of the mixed-type operations (C++14's rules for constant expressions are the narrowest: no lambdas, no
    # non-literal temporaries)
    add(f"constexpr auto m = max(centi(meters)({v(1)}), feet({v(1)})); constexpr auto n = min(meters({v(1)}), kilo(meters)({v(1)})); out(m.in(decltype(m)::unit)); out(n.in(decltype(n)::unit));")
    add(f"constexpr auto c = clamp(meters({v(5)}), centi(meters)({v(1)}), kilo(meters)({v(1)})); out(c.in(decltype(c)::unit));")
    add(f"constexpr bool b = (meters({v(1)}) < centi(meters)({v(5)})); constexpr bool e = (kilo(meters)({v(1)}) == meters({v(5)})); constexpr auto s = meters({v(1)}) + centi(meters)({v(5)}); constexpr auto d = kilo(meters)({v(1)}) - meters({v(5)}); out((int)b); out((int)e); out(s.in(decltype(s)::unit)); out(d.in(decltype(d)::unit));")
    add(f"constexpr auto p = max(meters_pt({v(1)}), centi(meters_pt)({v(5)})); constexpr auto q = min(kilo(meters_pt)({v(1)}), meters_pt({v(5)})); constexpr bool l = (meters_pt({v(1)}) < centi(meters_pt)({v(5)})); constexpr auto d = meters_pt({v(5)}) - centi(meters_pt)({v(1)}); out(p.in(decltype(p)::unit)); out(q.in(decltype(q)::unit)); out((int)l); out(d.in(decltype(d)::unit));")
    add(f"constexpr auto a = meters({v(5)}).as(centi(meters)); constexpr auto i = int_pow<2>(meters({v(3)})); constexpr auto z = meters({v(5)}) * seconds({v(2)}); constexpr auto w = meters({v(6)}) / {v(3)}; out(a.in(centi(meters))); out(i.in(squared(meters))); out(z.in(meters * seconds)); out(w.in(meters));")
    add(f"constexpr auto k = celsius_pt({v(20)}).coerce_as(kelvins_pt); constexpr auto t = SPEED_OF_LIGHT.as<double>(meters / second); constexpr auto g = rep_cast<double>(meters({v(5)})); out(k.in(kelvins_pt)); out(t.in(meters / second)); out(g.in(meters));")
    # wide character types are integral reps too: they must print as numbers whatever the standard says about streaming the bare character
    add("std::ostringstream os; os << meters(char16_t{65}) << '|' << meters(char32_t{66}) << '|' << meters(wchar_t{67}) << '|' << meters_pt(char16_t{68}); out(os.str().c_str());")
    add(f"using Q = Quantity<Meters, {R}>; out((double)sizeof(Q)); out((int)std::is_trivially_copyable<Q>::value); out((int)(std::is_same<std::common_type_t<Q, Quantity<Feet, {R}>>::Rep, {R}>::value));")
    # operands of different reps (same unit and different units), for quantities and points: overload resolution between the
    # same-type friends, the mixed templates and (C++20) rewritten <=> candidates must not change the answer
    others = [("double", "1.5"), ("int", "300"), ("unsigned", "5u"), ("signed char", "(signed char)100"), ("float", "0.25f"), ("long long", "-1LL")]
    for orep, oval in others:
        if orep == rep:
            continue
        add(f"auto a = meters({v(1)}); auto b = meters({oval}); out((int)(a < b)); out((int)(a <= b)); out((int)(a > b)); out((int)(a >= b)); out((int)(a == b)); out((int)(a != b)); out((int)(b < a)); out((int)(b >= a));")
        add(f"auto a = meters_pt({v(1)}); auto b = meters_pt({oval}); out((int)(a < b)); out((int)(a <= b)); out((int)(a > b)); out((int)(a >= b)); out((int)(a == b)); out((int)(a != b)); out((int)(b < a)); out((int)(b >= a));")
        add(f"auto a = meters({v(3)}); auto b = centi(meters)({oval}); out((int)(a < b)); out((int)(a >= b)); out((int)(b == a)); auto s = a + b; out(s.in(decltype(s)::unit)); auto d = b - a; out(d.in(decltype(d)::unit));")
        add(f"auto a = meters_pt({v(3)}); auto b = centi(meters_pt)({oval}); out((int)(a < b)); out((int)(a >= b)); out((int)(b == a)); auto d = b - a; out(d.in(decltype(d)::unit)); auto m = min(a, b); out(m.in(decltype(m)::unit));")
    # explicit-rep forms with a target rep other than the operand's rep: every <T> entry point, for quantities, points and constants
    # (casts, braces and conversions inside these are where compilers disagree about narrowing)
    targets = [("int", "int"), ("double", "double"), ("float", "float"), ("long long", "long long"), ("short", "short"), ("unsigned", "unsigned"), ("signed char", "signed char")]
    if tier == "quick":  # four of the seven per run: int, float, short and one of the others
        trnd = core.rng("c20targets", rep)
        targets = targets[:1] + targets[2:3] + targets[4:5] + [trnd.choice([targets[1], targets[3], targets[5], targets[6]])]
    for tname, T in targets:
        if T == rep or (T == "int" and rep == "int32_t"):
            continue
        small = T in ("short", "signed char")  # (keep every value inside the target rep: an out-of-range floating cast in the *program* would be its own UB)
        add(f"auto q = meters({v(1)}); out(q.as<{T}>(meters).in(meters)); out(q.in<{T}>(meters)); out(q.coerce_as<{T}>(centi(meters)).in(centi(meters))); out(q.coerce_in<{T}>(kilo(meters)));")
        add(f"auto q = rep_cast<{T}>(meters({v(5)})); out(q.in(meters)); auto p = rep_cast<{T}>(meters_pt({v(5)})); out(p.in(meters_pt));")
        add(f"auto p = meters_pt({v(1)}); out(p.coerce_as<{T}>(centi(meters_pt)).in(centi(meters_pt))); out(p.coerce_in<{T}>(kilo(meters_pt))); out(p.as<{T}>(meters_pt).in(meters_pt));")
        add(f"auto q = centi(meters)({v(120)}); out(round_as<{T}>(meters, q).in(meters)); out(round_in<{T}>(meters, q)); out(floor_as<{T}>(meters, q).in(meters)); out(floor_in<{T}>(meters, q)); out(ceil_as<{T}>(meters, q).in(meters)); out(ceil_in<{T}>(meters, q));")
        add(f"auto p = celsius_pt({v(20)}); out(ceil_in<{T}>(fahrenheit_pt, p)); out(round_in<{T}>(celsius_pt, p));")
        if not small:
            add(f"auto p = celsius_pt({v(20)}); out(round_as<{T}>(kelvins_pt, p).in(kelvins_pt)); out(floor_in<{T}>(kelvins_pt, p));")
            add(f"auto q = inverse_as<{T}>(micro(seconds), hertz({v(5)})); out(q.in(micro(seconds))); out(inverse_in<{T}>(nano(seconds), hertz({v(4)})));")
        add(f"auto q = inverse_as<{T}>(milli(seconds), (kilo(hertz) / mag<25>())({v(2)})); out(q.in(milli(seconds)));")
        add(f"auto q = inverse_as<{T}>(seconds, hertz({v(5)})); out(q.in(seconds));")
        add(f"out(is_conversion_lossy<{T}>(meters({v(5)}), centi(meters))); out(will_conversion_overflow<{T}>(meters({v(100)}), milli(meters))); out(will_conversion_truncate<{T}>(meters({v(100)}), kilo(meters)));")
        add(f"out(SPEED_OF_LIGHT.as<{T}>(meters / second).in(meters / second)); out(SPEED_OF_LIGHT.in<{T}>(kilo(meters) / second)); out((int)decltype(SPEED_OF_LIGHT)::can_store_value_in<{T}>(meters / second));")
        add(f"{T} z = ZERO; out(z); Quantity<Meters, {T}> a = ZERO; out(a.in(meters)); out(get_value<{T}>(mag<5>()));")
        add(f"auto a = meters({v(6)}) * ({T})2; out(a.in(meters)); auto b = meters({v(6)}) / ({T})2; out(b.in(meters)); auto c = ({T})3 * meters({v(6)}); out(c.in(meters)); auto q = meters({v(6)}); q *= ({T})2; out(q.in(meters));")
    add(f"auto a = meters({v(-1)}); auto b = meters(5u); out((int)(a < b)); out((int)(b > a)); auto p = meters_pt({v(-1)}); auto q = meters_pt(5u); out((int)(p < q)); out((int)(q > p));")
    # conversion factors that are roots and irrational (evaluated by the library's own compile-time arithmetic: must not depend on
    # what a particular compiler is willing to constant-fold)
    if not integral:
        add(f"auto q = sqrt(kilo(meters))({v(3)}); out(q.in(sqrt(meters))); out(q.in(sqrt(milli(meters))));")
        add(f"auto q = (meters * sqrt(seconds))({v(2)}); out(q.in(meters * sqrt(milli(seconds)))); auto r = cbrt(kilo(meters))({v(2)}); out(r.in(cbrt(meters)));")
        add(f"auto q = root<4>(kilo(meters))({v(2)}); out(q.in(root<4>(meters))); auto r = (meters / sqrt(hertz))({v(5)}); out(r.in(centi(meters) / sqrt(kilo(hertz))));")
        add(f"auto q = degrees({v(90)}); out(q.in(radians)); out(sqrt(squared(degrees)({v(4)})).in(radians)); auto r = (meters * mag<2>() / Magnitude<Pi>{{}})({v(1)}); out(r.in(meters));")
        add(f"out(get_value<{R}>(root<2>(mag<2>()))); out(get_value<{R}>(root<3>(mag<10>()) * Magnitude<Pi>{{}})); out(get_value<{R}>(pow<-3>(root<2>(mag<7>()))));")
    # odr-uses of the public static members and of every kind of compile-time label: in C++14 these need namespace-scope
    # definitions to link (C++17 made them implicitly inline), so a missing definition is accepted by one standard and rejected by another
    add(f"odr(decltype(meters({v(5)}))::unit); odr(decltype(meters_pt({v(5)}))::unit); odr(decltype(meters)::unit); odr(decltype(meters_pt)::unit);")
    add(f"out(unit_label(Meters{{}} * mag<3>())); out(unit_label(Meters{{}} * mag<3>() / mag<7>())); out(unit_label(Kilo<Meters>{{}} / mag<5>()));")
    add(f"out(unit_label(squared(Meters{{}}))); out(unit_label(root<2>(Meters{{}}))); out(unit_label(inverse(Seconds{{}}))); out(unit_label(pow<-2>(Seconds{{}}))); out(unit_label(Meters{{}} * Seconds{{}} / Feet{{}}));")
    add(f"out(unit_label(common_unit(Meters{{}} * mag<3>(), Meters{{}} * mag<5>()))); out(unit_label(common_unit(Meters{{}}, Feet{{}}))); out(unit_label(common_point_unit(Celsius{{}}, Kelvins{{}})));")
    add(f"out(mag_label(mag<3>() / mag<7>())); out(mag_label(mag<35>())); out(mag_label(Magnitude<Pi>{{}})); struct Unl : decltype(Meters{{}} * mag<2>()) {{}}; out(unit_label(Unl{{}}));")
    add(f"std::ostringstream os; os << (meters * mag<3>())({v(2)}) << '|' << (meters / mag<4>())({v(2)}) << '|' << meters_pt({v(2)}) << '|' << SPEED_OF_LIGHT << '|' << mag<6>() << '|' << ZERO; out(os.str().c_str());")
    add(f"odr(std::numeric_limits<Quantity<Meters, {R}>>::digits); odr(std::numeric_limits<Quantity<Meters, {R}>>::is_signed); odr(ZERO); odr(SPEED_OF_LIGHT); odr(meters); odr(hertz);")
    if rep == "double":
        add("auto q = celsius_pt(20.0); out(q.in(kelvins_pt)); out(q.in(fahrenheit_pt));")
        add("auto q = celsius_pt(20); out(q.coerce_in(milli(kelvins_pt)));")
    return S


API_PRE = r'''
#include "au/au.hh"
#include "au/io.hh"
#include "au/units/meters.hh"
#include "au/units/seconds.hh"
#include "au/units/feet.hh"
#include "au/units/hertz.hh"
#include "au/units/degrees.hh"
#include "au/units/percent.hh"
#include "au/units/celsius.hh"
#include "au/units/kelvins.hh"
#include "au/units/fahrenheit.hh"
#include "au/units/radians.hh"
#include "au/constants/speed_of_light.hh"
#include <chrono>
#include <cstdint>
#include <cstdio>
#include <sstream>
#include <type_traits>
using namespace au;
static int vf_stmt = 0;
static void out(double x) { printf("%d: %.17g\n", vf_stmt, x); }
static void out(float x) { printf("%d: %.9g\n", vf_stmt, (double)x); }
static void out(long double x) { printf("%d: %.21Lg\n", vf_stmt, x); }
static void out(const char *s) { printf("%d: %s\n", vf_stmt, s); }
static void out(bool b) { printf("%d: %d\n", vf_stmt, (int)b); }
template <typename T, typename = std::enable_if_t<std::is_integral<T>::value && !std::is_same<T, bool>::value>>
static void out(T x) { printf("%d: %lld\n", vf_stmt, (long long)x); }
template <typename T>
static void odr(const T &t) { out((int)(static_cast<const volatile void *>(&t) != nullptr)); }  // binds a reference: an odr-use
'''


def run(chk, which="C20"):
    tier = chk.tier
    rnd = core.rng("c20", tier)
    units = {u.type: u for u in model.scan_units()}
    consts = scan_constants()
    names = sorted(units)
    d = core.subdir("c20")
    n_eval = 0
    distinct = set()

    # ---- 1. single-file packaging ---------------------------------------------------------------------
    sizes = [(0, 0), (1, 0), (3, 1), (10, 0), (len(names), len(consts))] if tier == "quick" else [(0, 0), (1, 0), (1, 1), (3, 1), (3, len(consts)), (10, 0), (10, 2), (25, 3), (len(names), len(consts))] * 6
    selections = []
    for k, (nu, nc) in enumerate(sizes):
        su = sorted(rnd.sample(names, nu)) if nu < len(names) else list(names)
        sc = rnd.sample(consts, nc) if nc < len(consts) else list(consts)
        # constants need their units only inside the package; the program uses constants through .as<double>() only
        selections.append({"k": k, "units": su, "consts": sc, "io": (k % 2 == 0)})

    # a unit header and a constant header may share a file stem (standard_gravity): select both at once, in a small package
    ustem = {os.path.basename(units[u].header)[:-3]: u for u in names}
    for c, h in consts:
        st = os.path.basename(h)[:-3]
        if st in ustem:
            others = rnd.sample([n for n in names if n != ustem[st]], 2)
            selections.append({"k": len(selections), "units": sorted([ustem[st]] + others), "consts": [(c, h)], "io": bool(len(selections) % 2)})

    def do_sel(sel):
        k = sel["k"]
        sd = os.path.join(d, f"sf{k}")
        os.makedirs(sd, exist_ok=True)
        unit_args = [os.path.basename(units[u].header)[:-3] for u in sel["units"]]
        const_args = [os.path.basename(h)[:-3] for _, h in sel["consts"]]
        cmd = ["python3", os.path.join(core.REPO, "tools", "bin", "make-single-file"), "--version-id", "vf"]
        if unit_args:
            cmd += ["--units"] + unit_args
        if const_args:
            cmd += ["--constants"] + const_args
        if not sel["io"]:
            cmd += ["--noio"]
        rc, so, se = core.sh(cmd, cwd=core.REPO, timeout=120)
        if rc != 0:
            return sel, {"error": f"make-single-file failed: {se[-300:]}"}
        core.write(os.path.join(sd, "au.hh"), so)
        prog = program_for_selection(sel["units"], sel["consts"], sel["io"], units)
        src = core.write(os.path.join(sd, "prog.cc"), prog)
        res = {}
        for mode in ("single", "multi"):
            exe = os.path.join(sd, f"{mode}.exe")
            comp, flags = core.FLAVOURS["G_asan"]
            flags = flags.replace("-O1", "-O0")  # keep every odr-use of a label / static member alive until link time (C++14)
            objs = []
            err = None
            for tu, extra in (("main", ""), ("second", "-DVF_SECOND_TU")):
                obj = os.path.join(sd, f"{mode}_{tu}.o")
                if mode == "single":
                    cmd2 = [comp, "-std=c++14"] + flags.split() + ["-w", "-DVF_SINGLE", "-I", sd] + extra.split() + ["-c", src, "-o", obj]
                else:
                    cmd2 = [comp, "-std=c++14"] + flags.split() + ["-w", "-I", core.INC] + extra.split() + ["-c", src, "-o", obj]
                rc, so2, se2 = core.sh(cmd2, timeout=900)
                if rc == -9:
                    res["timeout"] = True
                if rc != 0:
                    err = f"{mode}/{tu} does not compile: " + (se2.split("error:")[1][:250] if "error:" in se2 else se2[:250])
                    break
                objs.append(obj)
            if err is None:
                rc, so2, se2 = core.sh([comp] + flags.split() + objs + ["-o", exe], timeout=300)
                if rc == -9:
                    res["timeout"] = True
                if rc != 0:
                    err = f"{mode}: link of two translation units failed: {se2[:300]}"
            if err is None:
                rc, so2, se2 = core.sh([exe], timeout=120, env=dict(os.environ, ASAN_OPTIONS="detect_leaks=0"))
                if rc != 0 or "done" not in so2:
                    err = f"{mode}: program failed rc={rc}: {se2[-300:]}"
                res[mode] = so2
            if err:
                res[mode + "_error"] = err
        return sel, res

    sel_results = core.pmap(do_sel, selections)
    for sel, res in sel_results:
        key = f'units={len(sel["units"])}|consts={len(sel["consts"])}|io={sel["io"]}|k={sel["k"]}'
        n_eval += 1
        distinct.add(("sel", tuple(sel["units"]), tuple(c for c, _ in sel["consts"]), sel["io"]))
        if "error" in res:
            chk.violation(f"C20|make_single_file|{key}", msg=res["error"])
            continue
        if res.get("timeout"):
            chk.fail_inconclusive(f"build timed out for selection {key}")
            continue
        if "multi_error" in res:
            # the program is generated from the selection and builds on a tree where the property holds: a two-TU program that the
            # multi-header tree itself rejects (C++14, -O0) is a public-API program that is not accepted
            chk.violation(f"C20|multi_header_two_tu|{key}", msg=f'two-translation-unit program against the multi-header tree (C++14) for units {sel["units"][:6]}...: {res["multi_error"]}')
            continue
        if "single_error" in res:
            chk.violation(f"C20|single_file|{key}", msg=f'single-file package for units {sel["units"][:6]}... consts {[c for c, _ in sel["consts"]][:4]} io={sel["io"]}: {res["single_error"]}')
            continue
        if res["single"] != res["multi"]:
            diff = [(a, b) for a, b in zip(res["single"].splitlines(), res["multi"].splitlines()) if a != b][:2]
            chk.violation(f"C20|single_vs_multi|{key}", msg=f"program output differs between the single-file package and the multi-header tree: {diff}")
        if len(chk.cov["samples"]) < 3:
            chk.sample({"selection_units": sel["units"][:8], "constants": [c for c, _ in sel["consts"]], "io": sel["io"], "output_lines": len(res["single"].splitlines()), "output_md5": hashlib.md5(res["single"].encode()).hexdigest()})

    # ---- 2. every public header compiles on its own (included twice); fwd headers agree with definitions ---
    headers = sorted(p[len(core.INC) + 1:] for p in glob.glob(os.path.join(core.INC, "au", "**", "*.hh"), recursive=True)
                     if not re.search(r"(_test|test_lib|testing)\.hh$", p) and "/stdx/" not in p or p.endswith("stdx/utility.hh"))
    headers = [h for h in headers if not h.endswith("fwd_test_lib.hh") and not h.endswith("testing.hh")]
    cfgs = [(core.GXX, "c++14"), (core.CLANGXX, "c++20")] if tier == "quick" else core.CONFIGS
    hjobs = []
    for h in headers:
        texts = [("alone", f'#include "{h}"\n#include "{h}"\nint main() {{ return 0; }}\n')]
        if h.endswith("_fwd.hh") or h.endswith("/fwd.hh"):
            full = h.replace("_fwd.hh", ".hh") if h.endswith("_fwd.hh") else "au/au.hh"
            if os.path.exists(os.path.join(core.INC, full)):
                texts.append(("fwd_then_def", f'#include "{h}"\n#include "{full}"\n#include "{h}"\nint main() {{ return 0; }}\n'))
        for kind, text in texts:
            for ci, cfg in enumerate(cfgs):
                if tier == "quick" and ci == 1 and ((zlib.crc32(h.encode()) + core.seed_of()) % 3):  # (deterministic: str hash() varies per process)
                    continue
                hjobs.append((h, kind, text, cfg))

    def do_header(job):
        h, kind, text, cfg = job
        tag = hashlib.md5((h + kind + cfg[0] + cfg[1]).encode()).hexdigest()[:12]
        src = core.write(os.path.join(d, "hdr", tag + ".cc"), text)
        cmd = core.compile_cmd(cfg[0], cfg[1], "", src, syntax_only=True)
        rc, so, se = core.sh(cmd, timeout=600)
        os.unlink(src)
        return h, kind, cfg, rc, se

    for h, kind, cfg, rc, se in core.pmap(do_header, hjobs):
        n_eval += 1
        distinct.add(("hdr", h, kind))
        if rc != 0:
            first = se.split("error:")[1][:220] if "error:" in se else se[:220]
            chk.violation(f"C20|header_{kind}|{h}|cfg={cfg[0]}:{cfg[1]}", msg=f'{cfg[0]} {cfg[1]}: header {h} ({kind}) does not compile on its own: {first}')

    # ---- 3. API-surface programs: accepted/rejected alike and identical output in every configuration -----
    all_cfgs = core.CONFIGS if tier == "thorough" else [(core.GXX, "c++14"), (core.CLANGXX, "c++14"), (core.GXX, "c++20"), (core.CLANGXX, "c++17")]
    classes = list(REPCLASSES.items()) if tier == "thorough" else [(k, v) for k, v in REPCLASSES.items() if k in ("floating", "int32", "subint", "unsigned", "subint16")]
    api_counts = []

    def do_class(cr):
        cname, rep = cr
        n_eval = 0
        stmts = api_statements(rep, tier)
        probes = [{"id": i + 1, "expect": None, "stmt": s, "text": f"void vf_p{i + 1}() {{ vf_stmt = {i + 1}; {s} }}"} for i, s in enumerate(stmts)]

        def do_cfg(cfg):
            pr = ccmon.ProbeRun(API_PRE, cfg[0], cfg[1], batch=1000)
            res = pr.run(probes, tag=f"c20api_{cname}")
            # batch verdicts can be distorted by once-per-specialisation diagnostics: re-check everything that any config rejected later
            return cfg, res

        per_cfg = core.pmap(do_cfg, all_cfgs, workers=len(all_cfgs))
        # isolate every statement that anyone rejected, so that the verdict does not depend on batching.  A template's
        # static_assert fires once per specialisation and TU, so a rejected statement can shadow a later one that would
        # fail on its own: re-run the batch on the survivors until no new rejections appear.
        suspicious = {pid for cfg, res in per_cfg for pid, r in res.items() if r["rejected"]}
        for _round in range(6):
            rest = [p for p in probes if p["id"] not in suspicious]
            more = set()
            for cfg, res in core.pmap(lambda cfg: (cfg, ccmon.ProbeRun(API_PRE, cfg[0], cfg[1], batch=1000).run(rest, tag=f"c20api{_round}_{cname}")), all_cfgs, workers=len(all_cfgs)):
                more |= {pid for pid, r in res.items() if r["rejected"]}
            if not more:
                break
            suspicious |= more
        suspicious = sorted(suspicious)
        iso = {}
        if suspicious:
            def do_iso(job):
                cfg, pid = job
                p = probes[pid - 1]
                rc, rej, loose = ccmon.compile_batch(API_PRE, [(p["id"], p["text"])], cfg[0], cfg[1], f"c20iso_{cname}_{pid}_{'c' if 'clang' in cfg[0] else 'g'}{cfg[1][-2:]}")
                return cfg, pid, rc != 0, (list(rej.values()) or [loose or ["?"]])[0][0][:200] if rc != 0 else ""
            for cfg, pid, rejected, msg in core.pmap(do_iso, [(cfg, pid) for cfg in all_cfgs for pid in suspicious]):
                iso[(cfg, pid)] = (rejected, msg)
        accepted_everywhere = []
        for p in probes:
            n_eval += len(all_cfgs)
            distinct.add(("api", cname, p["id"]))
            if p["id"] in suspicious:
                verdicts = {cfg: iso[(cfg, p["id"])][0] for cfg in all_cfgs}
                if len(set(verdicts.values())) > 1:
                    acc = [f"{c} {s}" for (c, s), v in verdicts.items() if not v]
                    rej = [f"{c} {s}" for (c, s), v in verdicts.items() if v]
                    msg = next(iso[(cfg, p["id"])][1] for cfg in all_cfgs if iso[(cfg, p["id"])][0])
                    chk.violation(f'C20|accept_differs|rep={rep}|stmt={p["stmt"][:120]}', msg=f'`{p["stmt"][:200]}` (rep {rep}) is accepted by [{", ".join(acc)}] but rejected by [{", ".join(rej)}]: {msg}')
                elif not any(verdicts.values()):
                    accepted_everywhere.append(p)
            else:
                accepted_everywhere.append(p)
        # execute the statements every configuration accepts, compare traces
        body = API_PRE + "\n".join(p["text"] for p in accepted_everywhere) + "\nint main() {\n" + "\n".join(f"  vf_p{p['id']}();" for p in accepted_everywhere) + '\n  printf("done\\n");\n  return 0;\n}\n'
        src = core.write(os.path.join(d, f"api_{cname}.cc"), body)

        def do_exec(job):
            cfg, opt = job
            # sanitized -O1 build (values, UB, memory) and a plain -O0 build (every odr-use survives to the linker)
            fl = ("G_asan" if cfg[0] == core.GXX else "L_asan") if opt == "san" else ("G_O0" if cfg[0] == core.GXX else "L_O0")
            exe = os.path.join(d, f"api_{cname}_{'c' if 'clang' in cfg[0] else 'g'}{cfg[1][-2:]}_{opt}.exe")
            rc, se = core.build(src, exe, fl, std=cfg[1])
            if rc != 0:
                und = sorted(set(re.findall(r"undefined reference to `[^']*'", se)))
                return cfg, None, "build: " + ("; ".join(und)[:600] if und else (se.split("error:")[1][:250] if "error:" in se else se[:250]))
            rc, so, se = core.sh([exe], timeout=120, env=dict(os.environ, ASAN_OPTIONS="detect_leaks=0"))
            if rc != 0 or "done" not in so:
                return cfg, None, f"run rc={rc}: {se[-300:]}"
            return cfg, so, None

        outs = core.pmap(do_exec, [(c, o) for c in all_cfgs for o in ("san", "O0")], workers=len(all_cfgs) * 2)
        ref = None
        for cfg, so, err in outs:
            if err:
                und = sorted(set(re.findall(r"undefined reference to `([^']*)'", err)))
                chk.violation(f"C20|api_program|rep={rep}|cfg={cfg[0]}:{cfg[1]}" + (f"|undefined={und[0][:80]}" if und else ""), msg=f"API-surface program for rep {rep} fails under {cfg[0]} {cfg[1]} although every statement compiles alone: {err}")
                continue
            if ref is None:
                ref = (cfg, so)
            elif so != ref[1]:
                diff = [(a, b) for a, b in zip(ref[1].splitlines(), so.splitlines()) if a != b][:2]
                sidx = int(diff[0][0].split(":")[0]) if diff and diff[0][0].split(":")[0].isdigit() else 0
                stmt = probes[sidx - 1]["stmt"][:160] if sidx else "?"
                chk.violation(f"C20|output_differs|rep={rep}|cfg={cfg[0]}:{cfg[1]}|stmt={stmt[:100]}", msg=f"output of `{stmt}` (rep {rep}) differs between {ref[0][0]} {ref[0][1]} and {cfg[0]} {cfg[1]}: {diff}")
        if ref and len(chk.cov["samples"]) < 6:
            chk.sample({"api_program_rep": rep, "statements": len(probes), "accepted_by_all": len(accepted_everywhere), "configurations": len(all_cfgs), "trace_md5": hashlib.md5(ref[1].encode()).hexdigest()})

        api_counts.append(n_eval)

    core.pmap(do_class, classes, workers=len(classes))
    n_eval += sum(api_counts)
    chk.add_evals(n_eval, len(distinct))
    chk.cov["rule"] = ("single-file packages generated by tools/bin/make-single-file from the current tree for seeded selections of unit/constant headers x {io, noio}; a generated program using exactly the selection is built "
                       "against the package alone (no repo include path, header included twice, two translation units linked) and against the multi-header tree, both under ASan+UBSan, outputs compared; every non-test header "
                       "compiled alone (included twice) and every *_fwd.hh before and after its definition; per rep class (incl. sub-int) ~50 API statements compiled per configuration with accept/reject compared "
                       "statement by statement (isolated) and the commonly accepted program executed in every configuration with traces diffed; distinct_nontrivial = distinct selections + headers + API statements")
    chk.notes.update({"selections": len(selections), "headers": len(headers), "api_rep_classes": [c for c, _ in classes], "configurations": [f"{c} {s}" for c, s in all_cfgs]})
    chk.assumptions += ["only g++ 12 and clang 14 with libstdc++ are installed; MSVC and older compilers are out of reach", "2^66 selections are sampled"]
    return chk
