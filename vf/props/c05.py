"""C05: rep-changing conversions (as<T>/coerce_as<T>/in<T>/rep_cast) and the <T> checkers."""
import json
import os

from .. import ccmon, core, numth

TYPES = [("int8_t", 8, True, True), ("uint8_t", 8, False, True), ("int16_t", 16, True, True), ("uint16_t", 16, False, True),
         ("int32_t", 32, True, True), ("uint32_t", 32, False, True), ("int64_t", 64, True, True), ("uint64_t", 64, False, True),
         ("float", 32, True, False), ("double", 64, True, False), ("long double", 80, True, False)]
TINFO = {t[0]: t for t in TYPES}

# name, N, D (None for irrational), long double expression
FACTORS = [
    ("1", 1, 1, "1.0L"), ("1000", 1000, 1, "1000.0L"), ("1/1000", 1, 1000, "1.0L/1000.0L"), ("5/9", 5, 9, "5.0L/9.0L"),
    ("3/2", 3, 2, "1.5L"), ("2^8", 256, 1, "256.0L"), ("1/2^8", 1, 256, "1.0L/256.0L"), ("2^24", 2 ** 24, 1, "16777216.0L"),
    ("1/2^21", 1, 2 ** 21, "1.0L/2097152.0L"), ("1250/381", 1250, 381, "1250.0L/381.0L"), ("7", 7, 1, "7.0L"),
    ("1/3", 1, 3, "1.0L/3.0L"), ("10^9", 10 ** 9, 1, "1e9L"), ("2^32/3", 2 ** 32, 3, "4294967296.0L/3.0L"),
    ("pi/180", None, None, "VF_PI/180.0L"), ("180/pi", None, None, "180.0L/VF_PI"),
]
FINFO = {f[0]: f for f in FACTORS}


def common_type(s, t):
    """C++ usual arithmetic conversions for our 11 types on LP64 (language rule, not library code)."""
    _, sb, ss, si = TINFO[s]
    _, tb, ts, ti = TINFO[t]
    if not si or not ti:
        order = ["float", "double", "long double"]
        fl = [x for x in (s, t) if not TINFO[x][3]]
        return max(fl, key=order.index)
    # integral promotion first
    def promote(name):
        _, b, sg, _ = TINFO[name]
        return ("int32_t", 32, True) if b < 32 else (name, b, sg)
    a, b = promote(s), promote(t)
    if a == b:
        return a[0]
    if a[2] == b[2]:
        return a[0] if a[1] >= b[1] else b[0]
    u, sg = (a, b) if not a[2] else (b, a)
    if u[1] >= sg[1]:
        return u[0]
    return sg[0]  # signed type can represent all values of the unsigned one


def imax(name):
    _, b, sg, _ = TINFO[name]
    return 2 ** (b - 1) - 1 if sg else 2 ** b - 1


def conv_compiles(s, t, fname):
    _, n, d, _ = FINFO[fname]
    c = common_type(s, t)
    if not TINFO[c][3]:
        return True
    if n is None:
        return False
    cm = imax(c)
    cpm = max(cm, 2 ** 31 - 1)
    if d == 1:
        return n <= cm
    if n == 1:
        return d <= cm
    return n <= cpm and d <= cpm


def dst_expr(fname):
    _, n, d, _ = FINFO[fname]
    if n is None:
        return {"pi/180": "decltype(VfBase{} * au::mag<180>() / au::Magnitude<au::Pi>{})",
                "180/pi": "decltype(VfBase{} * au::Magnitude<au::Pi>{} / au::mag<180>())"}[fname]
    if n == 1 and d == 1:
        return "VfBase"
    return f"decltype(VfBase{{}} * ({numth.mag_expr(d)} / {numth.mag_expr(n)}))"


PREAMBLE = r'''
#include "vf_repconv.hh"
#include <cstdint>
struct VfBase : au::UnitImpl<au::Length> {};
static const long double VF_PI = 3.14159265358979323846264338327950288419716939937510L;
'''


def emit_tu(insts):
    lines = [PREAMBLE, "int main(int argc, char **argv) {",
             "  unsigned long long nrandom = argc > 1 ? strtoull(argv[1], 0, 10) : 1000, seed = argc > 2 ? strtoull(argv[2], 0, 10) : 1;",
             "  vf::install_handlers();"]
    for i in insts:
        _, n, d, fexpr = FINFO[i["factor"]]
        rational = "true" if n is not None else "false"
        lines.append(f'#line {i["id"] * 10} "vfprobe"')
        lines.append(f'  {{ using Dst = {dst_expr(i["factor"])}; vfr::run_instance<{i["S"]}, {i["T"]}, VfBase, Dst, {rational}>({i["id"]}, "{i["S"]}", "{i["T"]}", "{i["factor"]}", {n or 1}ull, {d or 1}ull, {fexpr}, nrandom, seed ^ {i["id"]}ull); }}')
    lines.append('#line 1 "vftail"')
    lines += ["  vf::print_traps_json(); vf::print_diag_json();", '  printf("{\\"ev\\":\\"done\\"}\\n");', "  return 0;", "}"]
    return "\n".join(lines) + "\n"


def plan(tier):
    rnd = core.rng("c05", tier)
    insts = []
    iid = 1
    names = [t[0] for t in TYPES]
    per_pair = 4 if tier == "quick" else 12
    for s in names:
        for t in names:
            ok = [f[0] for f in FACTORS if conv_compiles(s, t, f[0])]
            rest = [f for f in ok if f != "1"]
            rnd.shuffle(rest)
            chosen = ["1"] + rest[:per_pair - 1]
            for f in chosen:
                insts.append({"id": iid, "S": s, "T": t, "factor": f})
                iid += 1
    return insts


def build_and_run(si, insts, flavour, nrandom, dropped):
    d = core.subdir(f"c05_{flavour}")
    src = os.path.join(d, f"s{si}.cc")
    exe = os.path.join(d, f"s{si}.exe")
    insts = list(insts)
    for attempt in range(12):
        core.write(src, emit_tu(insts))
        rc, se = core.build(src, exe, flavour)
        if rc == 0:
            break
        by, loose = ccmon.attribute(se)
        bad = {k // 10 for k in by}
        if not bad:
            raise core.Inconclusive(f"c05 shard {si} ({flavour}) failed to compile, no attributable instance: {se[:400]}")
        for i in insts:
            if i["id"] in bad:
                dropped.append(dict(i, err=by[[k for k in by if k // 10 == i["id"]][0]][0][:200], flavour=flavour))
        insts = [i for i in insts if i["id"] not in bad]
    else:
        raise core.Inconclusive(f"c05 shard {si} ({flavour}) still fails to compile")
    rc, so, se = core.sh([exe, str(nrandom), str(core.sub_seed("c05", si) % (2 ** 63))], timeout=1800)
    os.unlink(exe)
    if rc != 0 or '"ev":"done"' not in so:
        raise core.Inconclusive(f"c05 shard {si} ({flavour}) run failed rc={rc}: {se[-300:]}")
    return [json.loads(l) for l in so.splitlines() if l.startswith("{")]


def fmt_x(inst, bits):
    """decode aux0 (raw bits of the source value) for trap witnesses"""
    s = inst["S"]
    _, b, sg, isint = TINFO[s]
    if isint:
        v = bits & (2 ** b - 1)
        if sg and v >= 2 ** (b - 1):
            v -= 2 ** b
        return str(v)
    return f"bits=0x{bits:x}"


def run(chk, which="C05"):
    tier = chk.tier
    insts = plan(tier)
    by_id = {i["id"]: i for i in insts}
    nshards = 32 if tier == "quick" else 64
    shards = [insts[k::nshards] for k in range(nshards)]
    nrandom = 6000 if tier == "quick" else 200000
    flavours = ["G_trap", "L_trap"] if tier == "quick" else ["G_trap", "L_trap", "G_plain", "L_plain"]
    dropped = []
    jobs = [(si, sh, fl) for fl in flavours for si, sh in enumerate(shards)]
    results = core.pmap(lambda j: (j[2], j[0], build_and_run(j[0], j[1], j[2], nrandom, dropped)), jobs)
    core.reach(chk, emit_tu([i for i in insts if i["id"] % 7 == 0][:40]), [[400, 1]])
    per_flavour = {}
    nontrivial = set()
    total = 0
    nsamples = 0
    for fl, si, events in results:
        pf = per_flavour.setdefault(fl, {"evals": 0, "cleared": 0, "instances": 0, "traps_operation": 0, "traps_checker": 0, "judged_must": 0, "skipped_band": 0})
        for ev in events:
            if ev["ev"] == "inst":
                pf["evals"] += ev["evals"]
                pf["cleared"] += ev["cleared"]
                pf["instances"] += 1
                pf["judged_must"] += ev["judged_must"]
                pf["skipped_band"] += ev["band"]
                total += ev["evals"]
                if ev["cleared"] and ev["cleared"] < ev["evals"]:
                    nontrivial.add(ev["id"])
                tag = f'S={ev["S"]}|T={ev["T"]}|factor={ev["factor"]}'
                for w in ev["wit"]:
                    chk.violation(f'C05|{w["kind"]}|{tag}|x={w["x"]}',
                                  msg=f'{fl}: {w["kind"]}: {ev["S"]} -> {ev["T"]} x {ev["factor"]} at x={w["x"]}: lib(trunc,ovf,lossy)={w["lib"]} got={w["got"]} want={w["want"]}',
                                  flavour=fl, count_in_instance=ev["mm"].get(w["kind"]))
                if nsamples < 12 and ev["cleared"] and ev["lib"][1] and ev["id"] % 11 == 0:
                    chk.sample({"S": ev["S"], "T": ev["T"], "factor": ev["factor"], "flavour": fl, "evals": ev["evals"], "cleared_and_converted": ev["cleared"],
                                "lib_trunc_true": ev["lib"][0], "lib_ovf_true": ev["lib"][1], "inputs_judged_castable_or_not": ev["judged_must"], "skipped_in_band": ev["band"]})
                    nsamples += 1
            elif ev["ev"] == "traps":
                for r in ev["recs"]:
                    inst = by_id.get(r["inst"])
                    if not inst:
                        continue
                    tag = f'S={inst["S"]}|T={inst["T"]}|factor={inst["factor"]}'
                    xs = fmt_x(inst, r["aux0"])
                    if r["phase"] == "OPERATION":
                        pf["traps_operation"] += 1
                        chk.violation(f'C05|trap_operation|{tag}|x={xs}',
                                      msg=f'{fl}: sanitizer trap inside the conversion for a checker-cleared input {inst["S"]}({xs}) -> {inst["T"]} x {inst["factor"]}', flavour=fl)
                    elif r["phase"] == "CHECKER":
                        pf["traps_checker"] += 1
                        if fl.startswith("G_"):
                            chk.violation(f'C05|trap_checker|{tag}|x={xs}',
                                          msg=f'{fl}: undefined behaviour trapped while evaluating a <T> checker on {inst["S"]}({xs}) -> {inst["T"]} x {inst["factor"]}', flavour=fl)
                        else:
                            chk.lead(f'checker_trap|{fl}|{tag}', x=xs, note="clang build also traps on non-UB integer checks; gcc build decides")
                    else:
                        chk.fail_inconclusive(f"trap in harness phase {r['phase']} inst {r['inst']} ({fl})")
                if ev["total"] > len(ev["recs"]):
                    chk.lead(f"trap_buffer_overflow|{fl}|shard{si}", total=ev["total"])
    chk.add_evals(total, len(nontrivial))
    chk.cov["rule"] = ("instance = (source rep, target rep, factor); all 121 ordered rep pairs x factors whose conversion compiles; values: all 8/16-bit source values, "
                       "per-step threshold neighbourhoods + random for wider integral sources, nextafter walks around every target limit divided by the factor + "
                       "powers of two + NaN/inf/zeros/denormals + random patterns for floating sources; non-trivial instance = saw both cleared and lossy inputs")
    chk.notes["per_build"] = per_flavour
    chk.notes["instances_planned"] = len(insts)
    chk.notes["rejected_by_library"] = dropped[:40]
    if len(dropped) > len(insts) * len(flavours) // 3:
        chk.fail_inconclusive(f"{len(dropped)} instances rejected by the library")
    chk.assumptions += [
        "integral source and integral common type: exact sign + 128-bit magnitude arithmetic per step (cast to common, scale, cast to target)",
        "floating computations are judged against the long double value x*f with tolerance 2 ulp(common type) + 4 ulp(long double) (+1 ulp(T) for a narrowing cast); inputs whose castability is within that slack are skipped and counted",
        "UB trapped inside a <T> checker (gcc UBSan build) is treated as a violation: a predicate whose evaluation is undefined has no truth value (DESIGN.md section 8)",
    ]
    return chk
