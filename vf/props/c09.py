"""C09: QuantityPoint obeys exact affine semantics (Plane A + refusal probes)."""
import json
import os
from fractions import Fraction

from .. import ccmon, core

LIB = [("au::Kelvins", Fraction(1), Fraction(0)), ("au::Celsius", Fraction(1), Fraction(27315, 100)), ("au::Fahrenheit", Fraction(5, 9), Fraction(27315, 100) - Fraction(160, 9)),
       ("au::Milli<au::Kelvins>", Fraction(1, 1000), Fraction(0)), ("au::Centi<au::Celsius>", Fraction(1, 100), Fraction(27315, 100)), ("au::Kilo<au::Kelvins>", Fraction(1000), Fraction(0)),
       ("au::Milli<au::Celsius>", Fraction(1, 1000), Fraction(27315, 100)), ("au::Milli<au::Fahrenheit>", Fraction(5, 9000), Fraction(27315, 100) - Fraction(160, 9)),
       ("au::Centi<au::Kelvins>", Fraction(1, 100), Fraction(0))]
REPS = ["int32_t", "int64_t", "float", "double"]
INT = {"int32_t", "int64_t", "uint32_t"}


def gen_unit(rnd, decls):
    a, b = rnd.choice([1, 2, 3, 5, 9, 10, 100, 7]), rnd.choice([1, 2, 3, 5, 9, 10, 100, 1000])
    c = rnd.choice([1, 1, 2, 4, 5, 10, 100])
    d = rnd.choice([0, 1, -1, 5, -40, 273, 27315, -45967, 32, -17])
    name = f"VfQ{len(decls)}"
    decls.append(f"struct {name} : decltype(au::Kelvins{{}} * au::mag<{a}>() / au::mag<{b}>()) {{ static constexpr auto origin() {{ return (au::kelvins / au::mag<{c}>())({d}LL); }} }};")
    return (name, Fraction(a, b), Fraction(d, c))


def plan(tier):
    rnd = core.rng("c09", tier)
    decls = []
    units = list(LIB) + [gen_unit(rnd, decls) for _ in range(6 if tier == "quick" else 40)]
    inst = []
    iid = 1
    pairs = [(a, b) for a in units for b in units]
    rnd.shuffle(pairs)
    for (su, ss, so), (du, ds, do) in pairs[: (48 if tier == "quick" else 320)]:
        scale = ss / ds
        off = (so - do) / ds
        if max(abs(scale.numerator), scale.denominator, abs(off.numerator), off.denominator) > 10 ** 9:
            continue
        for r in REPS:
            t = rnd.choice(REPS) if rnd.random() < 0.4 else r
            implicit = (r not in INT) or (scale.denominator == 1 and off.denominator == 1 and scale.numerator * 2147 < 2 ** 31 and abs(off.numerator) < 2 ** 31 and su != du)
            if su == du:
                implicit = True
            args = f"{scale.numerator}LL, {scale.denominator}LL, {off.numerator}LL, {off.denominator}LL"
            inst.append({"id": iid, "desc": f"{su}:{r} -> {du}:{t}", "code": f'vfp9::run_convert<{su}, {r}, {du}, {t}, {"true" if implicit else "false"}>(ID, "{su}:{r} -> {du}:{t}", {args}, nrandom, seed ^ ID);'})
            iid += 1
            if r == t:
                for mixed in ("false", "true"):
                    libnames = {u[0] for u in LIB}
                    if mixed == "true" and r in INT and not (r == "int64_t" and su in libnames and du in libnames):
                        continue  # integral cross-unit comparison needs head-room in the (finer) common point unit
                    inst.append({"id": iid, "desc": f"arith {su},{du}:{r} mixed={mixed}", "code": f'vfp9::run_arith<{su}, {du}, {r}, {mixed}>(ID, "arith {su},{du}:{r} mixed={mixed}", {args}, nrandom, seed ^ ID);'})
                    iid += 1
    # the everyday temperature pairs, integral reps, every run (and therefore in the C++20 build: point <=>)
    libd = {u[0]: u for u in LIB}
    for a_, b_ in [("au::Celsius", "au::Kelvins"), ("au::Kelvins", "au::Celsius"), ("au::Celsius", "au::Fahrenheit"), ("au::Milli<au::Kelvins>", "au::Celsius"), ("au::Fahrenheit", "au::Kelvins")]:
        (su, ss, so), (du, ds, do) = libd[a_], libd[b_]
        scale = ss / ds
        off = (so - do) / ds
        args = f"{scale.numerator}LL, {scale.denominator}LL, {off.numerator}LL, {off.denominator}LL"
        for r in ("int64_t", "int32_t"):
            inst.append({"id": iid, "desc": f"arith {su},{du}:{r} mixed=true", "code": f'vfp9::run_arith<{su}, {du}, {r}, true>(ID, "arith {su},{du}:{r} mixed=true", {args}, nrandom, seed ^ ID);'})
            iid += 1
    # explicit-rep conversions across rep classes (floating source -> integral target of every width, and back) for a few unit pairs
    cross = [("float", "int64_t"), ("float", "int32_t"), ("double", "int64_t"), ("double", "int32_t"), ("float", "uint64_t"), ("int32_t", "double"), ("int64_t", "float"), ("float", "double"), ("double", "float"),
             ("int32_t", "int64_t"), ("int64_t", "int32_t"), ("uint32_t", "int32_t"), ("uint32_t", "int64_t"), ("uint64_t", "int64_t"), ("uint16_t", "int32_t")]
    for (su, ss, so), (du, ds, do) in pairs[: (6 if tier == "quick" else 40)]:
        scale = ss / ds
        off = (so - do) / ds
        if max(abs(scale.numerator), scale.denominator, abs(off.numerator), off.denominator) > 10 ** 6:
            continue
        args = f"{scale.numerator}LL, {scale.denominator}LL, {off.numerator}LL, {off.denominator}LL"
        for r, t in (cross if tier != "quick" else rnd.sample(cross, 7)):
            if t.startswith("uint") and (off < 0 or scale < 0):
                continue
            inst.append({"id": iid, "desc": f"{su}:{r} -> {du}:{t}", "code": f'vfp9::run_convert<{su}, {r}, {du}, {t}, false>(ID, "{su}:{r} -> {du}:{t}", {args}, nrandom, seed ^ ID);'})
            iid += 1
    # point +- quantity with different units and reps (incl. unsigned displacement reps narrower than the point's rep)
    shift_reps = [("int32_t", "double"), ("int32_t", "int64_t"), ("uint32_t", "double"), ("double", "uint32_t"), ("uint64_t", "uint32_t"), ("int64_t", "uint32_t"), ("int64_t", "int32_t"), ("int32_t", "int32_t"), ("double", "int32_t"), ("float", "double"), ("uint32_t", "uint32_t"),
                  ("int64_t", "uint16_t"), ("double", "uint64_t"), ("float", "uint32_t"), ("int32_t", "int16_t"), ("uint64_t", "uint64_t"), ("double", "float")]
    spairs = [(a, b) for a in units for b in units]
    rnd.shuffle(spairs)
    n_shift = 0
    for (pu, ps, po), (qu, qs, qo) in spairs:
        k = qs / ps
        if max(k.numerator, k.denominator) > 1000:
            continue
        for r1, r2 in rnd.sample(shift_reps, 3 if tier == "quick" else 6):
            integral = r1 in ("int32_t", "int64_t", "uint32_t", "uint64_t") or not r1[0] in "fd"
            if (r1[0] not in "fd" or r2[0] not in "fd") and max(k.numerator, k.denominator) > 100:
                continue
            off = (qo - po) / ps
            if max(abs(off.numerator), off.denominator) > 10 ** 7:
                continue
            inst.append({"id": iid, "desc": f"shift {pu}:{r1} +- {qu}:{r2}", "code": f'vfp9::run_shift<{pu}, {r1}, {qu}, {r2}>(ID, "shift {pu}:{r1} +- {qu}:{r2}", {k.numerator}LL, {k.denominator}LL, {off.numerator}LL, {off.denominator}LL, nrandom, seed ^ ID);'})
            iid += 1
        n_shift += 1
        if n_shift >= (22 if tier == "quick" else 120):
            break
    for i in inst:
        i["code"] = i["code"].replace("ID", str(i["id"]))
    return inst, decls


INC = '#include "au/au.hh"\n#include "au/units/kelvins.hh"\n#include "au/units/celsius.hh"\n#include "au/units/fahrenheit.hh"\n#include "au/units/meters.hh"\n#include "au/units/seconds.hh"\n'


def emit_tu(insts, decls):
    L = [INC, '#include "vf_point.hh"', "#include <cstdint>", "\n".join(decls), "int main(int argc, char **argv) {",
         "  unsigned long long nrandom = argc > 1 ? strtoull(argv[1], 0, 10) : 100, seed = argc > 2 ? strtoull(argv[2], 0, 10) : 1;", "  vf::install_handlers();"]
    for i in insts:
        L.append(f'#line {i["id"] * 10} "vfprobe"')
        L.append("  { " + i["code"] + " }")
    L.append('#line 1 "vftail"')
    L += ["  vf::print_traps_json(); vf::print_diag_json();", '  printf("{\\"ev\\":\\"done\\"}\\n");', "  return 0;", "}"]
    return "\n".join(L) + "\n"


def build_and_run(si, insts, decls, flavour, nrandom, dropped, std="c++14"):
    d = core.subdir(f"c09_{flavour}_{std.replace('+', 'p')}")
    src = os.path.join(d, f"s{si}.cc")
    exe = os.path.join(d, f"s{si}.exe")
    insts = list(insts)
    for attempt in range(12):
        core.write(src, emit_tu(insts, decls))
        rc, se = core.build(src, exe, flavour, std=std)
        if rc == 0:
            break
        by, loose = ccmon.attribute(se)
        bad = {k // 10 for k in by}
        if not bad:
            raise core.Inconclusive(f"c09 shard {si} ({flavour} {std}) failed to compile: {se[:500]}")
        for x in insts:
            if x["id"] in bad:
                dropped.append({"id": x["id"], "desc": x["desc"], "err": [v for k, v in by.items() if k // 10 == x["id"]][0][0][:200]})
        insts = [x for x in insts if x["id"] not in bad]
    else:
        raise core.Inconclusive(f"c09 shard {si} still fails to compile")
    rc, so, se = core.sh([exe, str(nrandom), str(core.sub_seed("c09", si) % 2 ** 62)], timeout=1800)
    os.unlink(exe)
    if rc != 0 or '"ev":"done"' not in so:
        raise core.Inconclusive(f"c09 shard {si} ({flavour}) run failed rc={rc}: {se[-300:]}")
    return [json.loads(l) for l in so.splitlines() if l.startswith("{")]


def probes():
    P = []
    pid = 1
    def add(name, expect, body):
        nonlocal pid
        P.append({"id": pid, "name": name, "expect": expect, "text": f"void vf_p{pid}() {{ using namespace au; auto p = celsius_pt(20.0); auto q = kelvins_pt(300.0); auto d = kelvins(5.0); (void)p; (void)q; (void)d; {body} }}"})
        pid += 1
    add("point+point", "reject", "auto r = p + q; (void)r;")
    add("point+point_same", "reject", "auto r = p + p; (void)r;")
    add("point-point(control)", "accept", "auto r = p - q; (void)r;")
    add("point+quantity(control)", "accept", "auto r = p + d; auto s = d + p; auto t = p - d; (void)r; (void)s; (void)t;")
    add("quantity-point", "reject", "auto r = d - p; (void)r;")
    add("scalar*point", "reject", "auto r = 2 * p; (void)r;")
    add("point*scalar", "reject", "auto r = p * 2.0; (void)r;")
    add("point/scalar", "reject", "auto r = p / 2.0; (void)r;")
    add("scalar*quantity(control)", "accept", "auto r = 2 * d; (void)r;")
    add("point*point", "reject", "auto r = p * q; (void)r;")
    add("point*quantity", "reject", "auto r = p * d; (void)r;")
    add("unary-point", "reject", "auto r = -p; (void)r;")
    add("point+=point", "reject", "p += q;")
    add("point+=quantity(control)", "accept", "p += d; p -= d;")
    add("point{ZERO}", "reject", "QuantityPoint<Kelvins, double> x{ZERO}; (void)x;")
    add("point=ZERO", "reject", "QuantityPoint<Kelvins, double> x = ZERO; (void)x;")
    add("quantity=ZERO(control)", "accept", "Quantity<Kelvins, double> x = ZERO; (void)x;")
    add("point_to_quantity_param", "reject", "struct L { static void f(Quantity<Kelvins, double>) {} }; L::f(q);")
    add("quantity_to_point_param", "reject", "struct L { static void f(QuantityPoint<Kelvins, double>) {} }; L::f(d);")
    add("point_to_point_param(control)", "accept", "struct L { static void f(QuantityPoint<Kelvins, double>) {} }; L::f(q); L::f(p);")
    add("point_maker(quantity)", "reject", "auto r = kelvins_pt(d); (void)r;")
    add("quantity_maker(point)", "reject", "auto r = kelvins(q); (void)r;")
    add("point_maker(point)", "reject", "auto r = kelvins_pt(q); (void)r;")
    add("point_compare_quantity", "reject", "bool r = (p == d); (void)r;")
    add("point_compare_point(control)", "accept", "bool r = (p == q) || (p < q); (void)r;")
    add("point_in_quantity_unit_dimension_mismatch", "reject", "auto r = p.in(meters_pt); (void)r;")
    # unit slots: a point maker names a point unit and must not be accepted where a quantity's unit is asked for, and vice versa
    add("quantity.in(point_maker)", "reject", "auto r = d.in(kelvins_pt); (void)r;")
    add("quantity.as(point_maker)", "reject", "auto r = d.as(celsius_pt); (void)r;")
    add("quantity.coerce_in(point_maker)", "reject", "auto r = d.coerce_in(milli(kelvins_pt)); (void)r;")
    add("quantity.in<T>(point_maker)", "reject", "auto r = d.in<int>(kelvins_pt); (void)r;")
    add("length.in(point_maker)", "reject", "auto r = meters(1.0).in(meters_pt); (void)r;")
    add("point.in(quantity_maker)", "reject", "auto r = q.in(kelvins); (void)r;")
    add("point.as(quantity_maker)", "reject", "auto r = p.as(celsius_qty); (void)r;")
    add("quantity.in(quantity_maker)(control)", "accept", "auto r = d.in(kelvins); auto s = d.in(Kelvins{}); auto t = d.in<int>(milli(kelvins)); (void)r; (void)s; (void)t;")
    add("point.in(point_maker)(control)", "accept", "auto r = q.in(kelvins_pt); auto s = q.in(Kelvins{}); auto t = p.as(celsius_pt); (void)r; (void)s; (void)t;")
    add("round_as(point_maker, quantity)", "reject", "auto r = round_as(kelvins_pt, d); (void)r;")
    add("make_quantity_from_point_maker_product", "reject", "auto r = (kelvins_pt * meters)(1.0); (void)r;")
    add("is_convertible_point_quantity", "accept", 'static_assert(!std::is_convertible<QuantityPoint<Kelvins, double>, Quantity<Kelvins, double>>::value && !std::is_convertible<Quantity<Kelvins, double>, QuantityPoint<Kelvins, double>>::value && !std::is_constructible<QuantityPoint<Kelvins, double>, Zero>::value, "vf");')
    return P


def run(chk, which="C09"):
    tier = chk.tier
    insts, decls = plan(tier)
    by_id = {x["id"]: x for x in insts}
    nsh = 16 if tier == "quick" else 32
    shards = [insts[k::nsh] for k in range(nsh)]
    flav = ["G_trap"] if tier == "quick" else ["G_trap", "Lub_trap", "L_plain"]
    nrandom = 200 if tier == "quick" else 4000
    dropped = []
    jobs = [(si, sh, fl, "c++14") for fl in flav for si, sh in enumerate(shards)]
    # the C++20-only forms (point <=>) : a slice of the shards in quick, all of them in thorough
    jobs += [(si, [x for x in sh if "run_arith" in x["code"] and (tier != "quick" or "mixed=true" in x["code"])], "G_trap", "c++20") for si, sh in enumerate(shards)]
    jobs = [j for j in jobs if j[1]]
    results = core.pmap(lambda j: (j[2] + ":" + j[3], build_and_run(j[0], j[1], decls, j[2], nrandom, dropped, std=j[3])), jobs)
    core.reach(chk, emit_tu([x for x in insts if x["id"] not in {d["id"] for d in dropped}][::9][:40], decls), [[40, 1]], std="c++20")
    P = probes()
    pre = INC + "#include <type_traits>\n"
    cfgs = [(core.GXX, "c++14"), (core.CLANGXX, "c++20")] if tier == "quick" else core.CONFIGS
    pres = core.pmap(lambda cfg: (cfg, ccmon.ProbeRun(pre, cfg[0], cfg[1], batch=40).run(P, tag="c09p")), cfgs, workers=3)
    evals = judged = 0
    distinct = set()
    for fl, events in results:
        for ev in events:
            if ev["ev"] in ("pconv", "parith"):
                evals += ev["evals"]
                judged += ev["judged"]
                if ev["judged"]:
                    distinct.add((ev["ev"], ev["id"]))
                for w in ev["wit"]:
                    chk.violation(f'C09|{w["op"]}|{ev["desc"][:140]}|x={w["a"]},{w["b"]}', msg=f'{fl}: {ev["desc"][:160]}: `{w["op"]}` at {w["a"]} (, {w["b"]}) gives {w["got"]}, exact affine result {w["want"]}')
                if len(chk.cov["samples"]) < 8 and ev["judged"] and ev["id"] % 3 == 0:
                    chk.sample({"instance": ev["desc"], "evaluations": ev["evals"], "judged": ev["judged"], "skipped_not_representable_or_near_tie": ev["skipped"]})
            elif ev["ev"] == "traps":
                for r in ev["recs"]:
                    x = by_id.get(r["inst"])
                    if r["phase"] == "OPERATION" and x:
                        chk.violation(f'C09|trap|{x["desc"][:120]}|x={r["aux0"]},{r["aux1"]}', msg=f'{fl}: UB trapped inside a point operation within the safe window ({x["desc"][:140]}, bits {r["aux0"]:#x})')
                    elif r["phase"] != "OPERATION":
                        chk.fail_inconclusive(f"trap in harness phase {r['phase']} ({fl})")
    nprobe = 0
    byp = {p["id"]: p for p in P}
    for cfg, res in pres:
        cs = f"{cfg[0]}:{cfg[1]}"
        for pid_, r in res.items():
            p = byp[pid_]
            nprobe += 1
            if r.get("unverified"):
                continue
            distinct.add(("probe", p["name"]))
            if p["expect"] == "reject" and not r["rejected"]:
                chk.violation(f'C09|non_affine_accepted|{p["name"]}|cfg={cs}', msg=f'{cs}: `{p["name"]}` compiles although it has no affine meaning')
            if p["expect"] == "accept" and r["rejected"]:
                chk.violation(f'C09|control_rejected|{p["name"]}|cfg={cs}', msg=f'{cs}: control `{p["name"]}` is rejected: {(r["msgs"] or ["?"])[0][:160]}')
    chk.add_evals(evals + nprobe, len(distinct))
    chk.cov["rule"] = ("ordered pairs among Kelvins/Celsius/Fahrenheit, prefixed forms and generated point units (rational scale and origin) x reps {int32,int64,float,double}: every integer in +-2^15 around zero and around "
                       "the target's zero (+ boundary/random floats) is converted with coerce_in<T>/coerce_as<T>/as<T> (and unit-only in/as where the policy admits) and compared with the exact affine map "
                       "(integral targets judged only when the true result is an integer within a 2^10 margin; floating targets within 6 ulp of the largest term in the common type of the two reps + 1 ulp of the result in the target rep; implicit construction and assignment into floating reps likewise); p-q, p+-d, comparisons within and across units; "
                       "27 compile probes for the non-affine expressions with controls; distinct_nontrivial = instances with judged values + probe kinds")
    chk.notes.update({"instances": len(insts), "values_judged": judged, "probes": nprobe, "rejected_by_library": dropped[:20], "n_rejected": len(dropped)})
    if len(dropped) > len(insts) * (len(flav) + 1) * 0.5:
        chk.fail_inconclusive(f"{len(dropped)} instances rejected by the library")
    return chk
