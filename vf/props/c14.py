"""C14: products, quotients and powers combine values raw-wise and units algebraically."""
import json
import os
from fractions import Fraction

from .. import ccmon, core, model, planeb

REPS = ["int8_t", "uint8_t", "int16_t", "int32_t", "uint32_t", "int64_t", "uint64_t", "float", "double", "long double"]
INTEGRAL = {"int8_t", "uint8_t", "int16_t", "uint16_t", "int32_t", "uint32_t", "int64_t", "uint64_t"}


def plan(tier, units, leaves):
    rnd = core.rng("c14", tier)
    names = [n for n in sorted(units) if n not in ("Celsius", "Fahrenheit", "Rankines", "Becquerel")]
    cands = [(("leaf", n), f"au::{n}") for n in names]
    ngen = 30 if tier == "quick" else 300
    while len(cands) < len(names) + ngen:
        t = model.gen_tree(rnd, names, rnd.choice([1, 2, 2]))
        if model.count_leaves(t) > 4 or model.has_ordering_tie(t, leaves) or not model.max_exp_ok(model.ev(t, leaves)):
            continue
        cands.append((t, f"decltype({model.spell(t, 'unit', units)})"))
    pairs = []
    iid = 1
    npairs = 140 if tier == "quick" else 1200
    special = [(("leaf", "Hertz"), "au::Hertz", ("leaf", "Seconds"), "au::Seconds"), (("leaf", "Meters"), "au::Meters", ("leaf", "Meters"), "au::Meters"),
               (("leaf", "Hertz"), "au::Hertz", ("prefix", "Milli", ("leaf", "Seconds")), "au::Milli<au::Seconds>"), (("leaf", "Percent"), "au::Percent", ("leaf", "Percent"), "au::Percent"),
               (("leaf", "Radians"), "au::Radians", ("leaf", "Radians"), "au::Radians"), (("leaf", "Feet"), "au::Feet", ("leaf", "Inches"), "au::Inches"),
               (("leaf", "Unos"), "au::Unos", ("leaf", "Meters"), "au::Meters"), (("leaf", "Kilo"), None, None, None)]
    for t1, s1, t2, s2 in special[:-1]:
        pairs.append({"id": iid, "t1": t1, "s1": s1, "t2": t2, "s2": s2, "r1": rnd.choice(REPS), "r2": rnd.choice(REPS)})
        iid += 1
    # both operands of exactly the same Quantity type (same unit AND same rep): overload resolution may pick another candidate than
    # for mixed types; unitless units included (the product must collapse to a raw number there)
    for (t1, s1) in [(("leaf", "Unos"), "au::Unos"), (("leaf", "Meters"), "au::Meters"), (("leaf", "Percent"), "au::Percent"), (("div", ("leaf", "Meters"), ("leaf", "Meters")), "decltype(au::Meters{} / au::Meters{})"),
                     (("mul", ("leaf", "Hertz"), ("leaf", "Seconds")), "decltype(au::Hertz{} * au::Seconds{})")]:
        for r in rnd.sample(REPS, 3):
            pairs.append({"id": iid, "t1": t1, "s1": s1, "t2": t1, "s2": s1, "r1": r, "r2": r})
            iid += 1
    while len(pairs) < npairs:
        (t1, s1), (t2, s2) = rnd.choice(cands), rnd.choice(cands)
        if model.has_ordering_tie(("mul", t1, t2), leaves):
            continue
        r1, r2 = rnd.choice(REPS), rnd.choice(REPS)
        pairs.append({"id": iid, "t1": t1, "s1": s1, "t2": t2, "s2": s2, "r1": r1, "r2": r2})
        iid += 1
    # exhaustive 8-bit x 8-bit value squares on a few unit pairs
    for r1, r2 in (("int8_t", "int8_t"), ("uint8_t", "uint8_t"), ("int8_t", "uint8_t")):
        pairs.append({"id": iid, "t1": ("leaf", "Meters"), "s1": "au::Meters", "t2": ("leaf", "Seconds"), "s2": "au::Seconds", "r1": r1, "r2": r2})
        iid += 1
    for p in pairs:
        e1, e2 = model.ev(p["t1"], leaves), model.ev(p["t2"], leaves)
        equiv = e1.dm_key() == e2.dm_key()
        p["plain"] = equiv or not (p["r1"] in INTEGRAL and p["r2"] in INTEGRAL)
    pows = []
    for k in range(36 if tier == "quick" else 200):
        t, s = rnd.choice(cands)
        pows.append({"id": iid, "t": t, "s": s, "r": rnd.choice(REPS)})
        iid += 1
    return pairs, pows


def emit_tu(pairs, pows, units):
    L = ['#include "au/au.hh"', planeb.unit_includes(units), '#include "vf_prod.hh"', "#include <cstdint>", "int main(int argc, char **argv) {",
         "  unsigned long long nrandom = argc > 1 ? strtoull(argv[1], 0, 10) : 100, seed = argc > 2 ? strtoull(argv[2], 0, 10) : 1;", "  vf::install_handlers();"]
    for p in pairs:
        desc = f'{p["s1"][:60]}:{p["r1"]} , {p["s2"][:60]}:{p["r2"]}'.replace('"', "'")
        L.append(f'#line {p["id"] * 10} "vfprobe"')
        L.append(f'  {{ using namespace au; vfp::run_pair<{p["s1"]}, {p["r1"]}, {p["s2"]}, {p["r2"]}, {"true" if p["plain"] else "false"}>({p["id"]}, "{desc}", nrandom, seed ^ {p["id"]}ull); }}')
    for p in pows:
        desc = f'{p["s"][:80]}:{p["r"]}'.replace('"', "'")
        L.append(f'#line {p["id"] * 10} "vfprobe"')
        L.append(f'  {{ using namespace au; vfp::run_powers<{p["s"]}, {p["r"]}>({p["id"]}, "{desc}", nrandom, seed ^ {p["id"]}ull); }}')
    L.append('#line 1 "vftail"')
    L += ["  vf::print_traps_json(); vf::print_diag_json();", '  printf("{\\"ev\\":\\"done\\"}\\n");', "  return 0;", "}"]
    return "\n".join(L) + "\n"


def build_and_run(si, pairs, pows, units, flavour, nrandom, dropped):
    d = core.subdir(f"c14_{flavour}")
    src = os.path.join(d, f"s{si}.cc")
    exe = os.path.join(d, f"s{si}.exe")
    pairs, pows = list(pairs), list(pows)
    for attempt in range(12):
        core.write(src, emit_tu(pairs, pows, units))
        rc, se = core.build(src, exe, flavour)
        if rc == 0:
            break
        by, loose = ccmon.attribute(se)
        bad = {k // 10 for k in by}
        if not bad:
            raise core.Inconclusive(f"c14 shard {si} ({flavour}) failed to compile: {se[:500]}")
        for x in pairs + pows:
            if x["id"] in bad:
                dropped.append({"id": x["id"], "err": [v for k, v in by.items() if k // 10 == x["id"]][0][0][:200]})
        pairs = [x for x in pairs if x["id"] not in bad]
        pows = [x for x in pows if x["id"] not in bad]
    else:
        raise core.Inconclusive(f"c14 shard {si} still fails to compile")
    rc, so, se = core.sh([exe, str(nrandom), str(core.sub_seed("c14", si) % 2 ** 62)], timeout=1800)
    os.unlink(exe)
    if rc != 0 or '"ev":"done"' not in so:
        raise core.Inconclusive(f"c14 shard {si} ({flavour}) run failed rc={rc}: {se[-300:]}")
    return [json.loads(l) for l in so.splitlines() if l.startswith("{")]


def guard_probes():
    """integer-division guard and as_raw_number"""
    P = []
    pid = 1
    ints = ["int", "int64_t", "uint8_t", "int16_t"]
    def add(name, expect, body):
        nonlocal pid
        P.append({"id": pid, "name": name, "expect": expect, "text": f"void vf_p{pid}() {{ using namespace au; {body} }}"})
        pid += 1
    for r1 in ints:
        for r2 in ints:
            add(f"intdiv_nonequiv|{r1}/{r2}", "reject", f"auto r = meters({r1}{{6}}) / seconds({r2}{{2}}); (void)r;")
            add(f"intdiv_nonequiv_unblocked|{r1}/{r2}", "accept", f"auto r = meters({r1}{{6}}) / unblock_int_div(seconds({r2}{{2}})); (void)r;")
            add(f"intdiv_sameunit_diffscale|{r1}/{r2}", "reject", f"auto r = meters({r1}{{6}}) / kilo(meters)({r2}{{2}}); (void)r;")
            add(f"intdiv_equiv|{r1}/{r2}", "accept", f"auto r = meters({r1}{{6}}) / meters({r2}{{2}}); (void)r;")
            add(f"int_over_intq|{r1}/{r2}", "reject", f"auto r = {r1}{{6}} / seconds({r2}{{2}}); (void)r;")
            add(f"int_over_intq_unblocked|{r1}/{r2}", "accept", f"auto r = {r1}{{6}} / unblock_int_div(seconds({r2}{{2}})); (void)r;")
        for f in ("double", "float"):
            add(f"floatdiv|{r1}/{f}", "accept", f"auto r = meters({r1}{{6}}) / seconds({f}{{2}}); auto s = meters({f}{{6}}) / seconds({r1}{{2}}); auto t = {f}{{6}} / seconds({r1}{{2}}); auto u = {r1}{{6}} / seconds({f}{{2}}); (void)r; (void)s; (void)t; (void)u;")
    add("as_raw_number|dimensioned", "reject", "auto r = as_raw_number(meters(3.0)); (void)r;")
    add("as_raw_number|dimensioned_ratio", "reject", "auto r = as_raw_number(meters(3.0) / seconds(2.0)); (void)r;")
    add("as_raw_number|percent_int", "reject", "auto r = as_raw_number(percent(50)); (void)r;")
    add("as_raw_number|percent_double", "accept", "auto r = as_raw_number(percent(50.0)); (void)r;")
    add("as_raw_number|unos_int", "accept", "auto r = as_raw_number(unos(5)); (void)r;")
    add("as_raw_number|kilo_unos_int", "accept", "auto r = as_raw_number(kilo(unos)(5)); (void)r;")
    add("as_raw_number|milli_unos_int", "reject", "auto r = as_raw_number(milli(unos)(5)); (void)r;")
    add("as_raw_number|radians", "reject", "auto r = as_raw_number(radians(1.0)); (void)r;")
    add("as_raw_number|cancelled", "accept", "auto r = as_raw_number(meters(6.0) / meters(2.0)); (void)r;")
    add("as_raw_number|raw_identity", "accept", "auto r = as_raw_number(3.5); (void)r;")
    add("as_raw_number|feet_per_inch_double", "accept", "auto r = as_raw_number(feet(6.0) / inches(2.0)); (void)r;")
    add("as_raw_number|inch_per_foot_int", "reject", "auto r = as_raw_number(inches(6) / unblock_int_div(feet(2))); (void)r;")
    return P


def run(chk, which="C14"):
    tier = chk.tier
    units = {u.type: u for u in model.scan_units()}
    lf = planeb.leaf_table(units)
    leaves = {k: (v[0], v[1]) for k, v in lf.items()}
    pairs, pows = plan(tier, units, leaves)
    by_id = {x["id"]: x for x in pairs + pows}
    nsh = 16 if tier == "quick" else 48
    shards = [(pairs[k::nsh], pows[k::nsh]) for k in range(nsh)]
    flav = ["G_trap"] if tier == "quick" else ["G_trap", "Lub_trap", "L_plain"]
    nrandom = 100 if tier == "quick" else 1500
    dropped = []
    jobs = [(si, a, b, fl) for fl in flav for si, (a, b) in enumerate(shards)]
    results = core.pmap(lambda j: (j[3], build_and_run(j[0], j[1], j[2], units, j[3], nrandom, dropped)), jobs)
    bad_ids = {d["id"] for d in dropped}
    core.reach(chk, emit_tu([x for x in pairs if x["id"] not in bad_ids][::7][:30], [x for x in pows if x["id"] not in bad_ids][::5][:16], units), [[30, 1]])
    # compile-outcome probes for the guards
    probes = guard_probes()
    pre = '#include "au/au.hh"\n' + planeb.unit_includes(units) + "\n#include <cstdint>\n"
    cfgs = [(core.GXX, "c++14"), (core.CLANGXX, "c++17")] if tier == "quick" else core.CONFIGS
    pres = core.pmap(lambda cfg: (cfg, ccmon.ProbeRun(pre, cfg[0], cfg[1], batch=1 if False else 40).run(probes, tag="c14g")), cfgs, workers=3)
    evals = 0
    distinct = set()
    for fl, events in results:
        for ev in events:
            if ev["ev"] == "pfact":
                x = by_id[ev["id"]]
                evals += 1
                gd, gm = model.parse_dim_event(ev["dim"]), model.parse_mag_event(ev["mag"])
                op = ev["op"]
                if "t1" in x:
                    e1, e2 = model.ev(x["t1"], leaves), model.ev(x["t2"], leaves)
                    if op == "q*q":
                        wd, wm = model.emul(e1.dim, e2.dim), model.emul(e1.mag, e2.mag)
                    elif op in ("q/q", "q/unblock(q)"):
                        wd, wm = model.emul(e1.dim, model.einv(e2.dim)), model.emul(e1.mag, model.einv(e2.mag))
                    elif op in ("s/q", "s/q(plain)"):
                        wd, wm = model.einv(e2.dim), model.einv(e2.mag)
                    else:
                        wd, wm = e1.dim, e1.mag
                    desc = f'{x["s1"][:100]} , {x["s2"][:100]}'
                else:
                    e = model.ev(x["t"], leaves)
                    if op.startswith("int_pow<"):
                        k = Fraction(int(op[8:-1]))
                    else:
                        k = Fraction(1, 2) if op == "sqrt" else Fraction(1, 3)
                    wd, wm = model.epow(e.dim, k), model.epow(e.mag, k)
                    desc = x["s"][:200]
                distinct.add((ev["id"], op))
                if model.ekey(gd) != model.ekey(wd) or model.ekey(gm) != model.ekey(wm):
                    chk.violation(f"C14|unit|op={op}|{desc}", msg=f"{fl}: unit of `{op}` for {desc}: library {model.ekey(gd)}/{model.ekey(gm)} != exact {model.ekey(wd)}/{model.ekey(wm)}")
                if op in ("q*q", "q/q"):
                    unitless = (wd == {} and wm == {})
                    if bool(ev["is_quantity"]) == unitless:
                        chk.violation(f"C14|collapse|op={op}|{desc}", msg=f"{fl}: `{op}` for {desc} yields {'a Quantity' if ev['is_quantity'] else 'a raw number'} but the exact result unit is {'exactly unitless' if unitless else 'not the unitless unit'}")
            elif ev["ev"] in ("pprod", "ppow"):
                evals += ev["evals"]
                for w in ev["wit"]:
                    chk.violation(f'C14|value|op={w["op"]}|{ev["desc"][:150]}|x={w["a"]},{w["b"]}', msg=f'{fl}: `{w["op"]}` on stored values {w["a"]}, {w["b"]} ({ev["desc"][:160]}): got {w["got"]}, raw operator/std function gives {w["want"]}')
                if len(chk.cov["samples"]) < 8 and ev["evals"]:
                    chk.sample({"instance": ev["desc"][:200], "kind": ev["ev"], "evaluations": ev["evals"], "skipped_raw_ub_or_overflow": ev["skipped"]})
            elif ev["ev"] == "traps":
                for r in ev["recs"]:
                    x = by_id.get(r["inst"])
                    if r["phase"] == "OPERATION" and x:
                        chk.violation(f'C14|trap|id={x.get("s1", x.get("s"))[:100]}|x={r["aux0"]},{r["aux1"]}', msg=f'{fl}: UB trapped inside a product/quotient/power whose raw operation is defined (bits {r["aux0"]:#x}, {r["aux1"]:#x})')
                    elif r["phase"] != "OPERATION":
                        chk.fail_inconclusive(f"trap in harness phase {r['phase']} ({fl})")
    nprobe = 0
    byp = {p["id"]: p for p in probes}
    for cfg, res in pres:
        cs = f"{cfg[0]}:{cfg[1]}"
        for pid_, r in res.items():
            p = byp[pid_]
            nprobe += 1
            if r.get("unverified"):
                continue
            distinct.add(("probe", p["name"]))
            if p["expect"] == "reject" and not r["rejected"]:
                chk.violation(f'C14|guard_accepts|{p["name"]}|cfg={cs}', msg=f'{cs}: `{p["text"][40:200]}` compiles although it must be rejected ({p["name"]})')
            if p["expect"] == "accept" and r["rejected"]:
                chk.violation(f'C14|guard_rejects|{p["name"]}|cfg={cs}', msg=f'{cs}: `{p["text"][40:200]}` is rejected although it must compile ({p["name"]}): {(r["msgs"] or ["?"])[0][:160]}')
    chk.add_evals(evals + nprobe, len(distinct))
    chk.cov["rule"] = ("unit pairs from library and generated units x rep pairs: q*q, q*s, q/q, s/q values vs the raw operator on the same laundered stored values (all 2^16 pairs for 8-bit x 8-bit, boundary/random otherwise; "
                       "raw-UB pairs skipped), result unit reified and compared with the exact product/quotient, raw-number collapse iff exactly unitless; int_pow<-4..4>, sqrt, cbrt values and units; "
                       "integer-division guard and as_raw_number compile probes; distinct_nontrivial = distinct (instance, operation) facts + probe kinds")
    chk.notes.update({"pairs": len(pairs), "power_instances": len(pows), "guard_probes": nprobe, "rejected_by_library": dropped[:20], "n_rejected": len(dropped)})
    chk.assumptions += ["integer dividing an integral *unitless* quantity is not asserted either way (ambiguous in the statement)",
                        "int_pow on floating reps: within (|k|+1) ulp of the exact power, the statement fixes no association order"]
    return chk
