"""C08: mixed-unit comparison, addition, subtraction and modulo are exact (Plane A)."""
import json
import math
import os
from fractions import Fraction

from .. import ccmon, core, numth

INT_REPS = {"int8_t": (8, True), "int16_t": (16, True), "int32_t": (32, True), "int64_t": (64, True),
            "uint8_t": (8, False), "uint16_t": (16, False), "uint32_t": (32, False), "uint64_t": (64, False)}
SCALES = [Fraction(1), Fraction(2), Fraction(3), Fraction(1, 2), Fraction(1, 3), Fraction(2, 3), Fraction(5, 9), Fraction(1250, 381), Fraction(1000), Fraction(1, 1000),
          Fraction(60), Fraction(3600), Fraction(12), Fraction(5280), Fraction(254, 10000), Fraction(9, 5), Fraction(7, 4), Fraction(10), Fraction(1, 10), Fraction(100, 3),
          Fraction(1024), Fraction(1, 1024), Fraction(22, 7), Fraction(1609344, 1000), Fraction(3, 1000)]


def common_rep(r1, r2):
    b1, s1 = INT_REPS[r1]
    b2, s2 = INT_REPS[r2]
    assert s1 == s2
    if r1 == r2:
        return r1, b1
    b = max(b1, b2, 32)  # different types: usual arithmetic conversions promote to at least int
    return ("int" if s1 else "uint") + f"{b}_t", b


def cmax(bits, signed):
    return 2 ** (bits - 1) - 1 if signed else 2 ** bits - 1


def fgcd(a, b):
    return Fraction(math.gcd(a.numerator * b.denominator, b.numerator * a.denominator), a.denominator * b.denominator)


def unit_expr(scale):
    if scale == 1:
        return "VfBase"
    return f"decltype(VfBase{{}} * {numth.mag_expr(scale.numerator)} / {numth.mag_expr(scale.denominator)})"


def plan(tier):
    rnd = core.rng("c08", tier)
    insts = []
    iid = 1
    signed_pairs = [("int8_t", "int16_t"), ("int16_t", "int8_t"), ("int16_t", "int16_t"), ("int16_t", "int32_t"), ("int32_t", "int32_t"), ("int32_t", "int64_t"),
                    ("int64_t", "int64_t"), ("int8_t", "int32_t"), ("int64_t", "int16_t")]
    unsigned_pairs = [(a.replace("int", "uint"), b.replace("int", "uint")) for a, b in signed_pairs]
    n_pairs = 64 if tier == "quick" else 300
    tries = 0
    seen = set()
    # the narrow common reps admit only small integer factors (2147*k <= max): make sure they are present in every run
    small = [(Fraction(1), Fraction(2)), (Fraction(12), Fraction(1)), (Fraction(1, 2), Fraction(1, 3)), (Fraction(3), Fraction(2)), (Fraction(2, 3), Fraction(1)), (Fraction(1), Fraction(1, 10)),
             (Fraction(7, 4), Fraction(1)), (Fraction(1, 3), Fraction(1)), (Fraction(9, 5), Fraction(3)), (Fraction(1, 10), Fraction(1, 2))]
    for rp in [("int16_t", "int16_t"), ("uint16_t", "uint16_t"), ("int8_t", "int16_t"), ("uint16_t", "uint8_t")]:
        for s1, s2 in rnd.sample(small, 5 if tier == "quick" else 10):
            g = fgcd(s1, s2)
            k1, k2 = s1 / g, s2 / g
            cname, cb = common_rep(*rp)
            if 2147 * int(max(k1, k2)) > cmax(cb, INT_REPS[rp[0]][1]):
                continue
            seen.add((s1, s2) + rp)
            insts.append({"id": iid, "kind": "int", "s1": s1, "s2": s2, "r1": rp[0], "r2": rp[1], "k1": int(k1), "k2": int(k2), "g": g})
            iid += 1
    while len([i for i in insts if i["kind"] == "int"]) < n_pairs * 3 and tries < 20000:
        tries += 1
        s1, s2 = rnd.choice(SCALES), rnd.choice(SCALES)
        if s1 == s2:
            continue
        r1, r2 = rnd.choice(signed_pairs + unsigned_pairs)
        g = fgcd(s1, s2)
        k1, k2 = s1 / g, s2 / g
        assert k1.denominator == 1 and k2.denominator == 1
        cname, cb = common_rep(r1, r2)
        cm = cmax(cb, INT_REPS[r1][1])
        if cm < 2147 or 2147 * int(k1) > cm or 2147 * int(k2) > cm:
            continue
        key = (s1, s2, r1, r2)
        if key in seen:
            continue
        seen.add(key)
        insts.append({"id": iid, "kind": "int", "s1": s1, "s2": s2, "r1": r1, "r2": r2, "k1": int(k1), "k2": int(k2), "g": g})
        iid += 1
    for r1, r2 in [("float", "float"), ("double", "double"), ("float", "double"), ("double", "float"), ("long double", "double")]:
        for _ in range(4 if tier == "quick" else 16):
            s1, s2 = rnd.choice(SCALES), rnd.choice(SCALES)
            if s1 == s2:
                continue
            g = fgcd(s1, s2)
            insts.append({"id": iid, "kind": "float", "s1": s1, "s2": s2, "r1": r1, "r2": r2, "k1": int(s1 / g), "k2": int(s2 / g), "g": g})
            iid += 1
    # long double as the common rep, with integer factors to the common unit that need more than 53 significant bits
    # (exact in long double's 64-bit significand): the factor must be applied in the rep's own precision
    big = [Fraction(10 ** 24), Fraction(3 ** 40), Fraction(10 ** 27), Fraction(2 ** 70 + 2 ** 10), Fraction(7 ** 22), Fraction(1, 10 ** 24), Fraction(10 ** 24, 3)]
    for r1, r2 in [("long double", "long double"), ("long double", "double"), ("float", "long double")]:
        for s1 in (big if tier != "quick" else rnd.sample(big, 3)):
            s2 = Fraction(1)
            if rnd.random() < 0.5:
                s1, s2 = s2, s1
            g = fgcd(s1, s2)
            insts.append({"id": iid, "kind": "float", "s1": s1, "s2": s2, "r1": r1, "r2": r2, "k1": int(s1 / g), "k2": int(s2 / g), "g": g})
            iid += 1
    return insts


def emit_tu(insts):
    L = ['#include "vf_mixed.hh"', "#include <cstdint>", "struct VfBase : au::UnitImpl<au::Length> {};", "int main(int argc, char **argv) {",
         "  unsigned long long nrandom = argc > 1 ? strtoull(argv[1], 0, 10) : 100, seed = argc > 2 ? strtoull(argv[2], 0, 10) : 1;", "  vf::install_handlers();"]
    for i in insts:
        desc = f'{i["r1"]} x{i["s1"]} vs {i["r2"]} x{i["s2"]}'
        fn = "run_int" if i["kind"] == "int" else "run_float"
        ks = f'{i["k1"]}ull, {i["k2"]}ull' if i["kind"] == "int" else f'{i["k1"]}.0L, {i["k2"]}.0L'
        L.append(f'#line {i["id"] * 10} "vfprobe"')
        L.append(f'  {{ using U1 = {unit_expr(i["s1"])}; using U2 = {unit_expr(i["s2"])}; using CU = {unit_expr(i["g"])}; vfm::{fn}<U1, {i["r1"]}, U2, {i["r2"]}, CU>({i["id"]}, "{desc}", {ks}, nrandom, seed ^ {i["id"]}ull); }}')
    L.append('#line 1 "vftail"')
    L += ["  vf::print_traps_json(); vf::print_diag_json();", '  printf("{\\"ev\\":\\"done\\"}\\n");', "  return 0;", "}"]
    return "\n".join(L) + "\n"


def build_and_run(si, insts, flavour, std, nrandom, dropped):
    d = core.subdir(f"c08_{flavour}_{std.replace('+', 'p')}")
    src = os.path.join(d, f"s{si}.cc")
    exe = os.path.join(d, f"s{si}.exe")
    insts = list(insts)
    for attempt in range(12):
        core.write(src, emit_tu(insts))
        rc, se = core.build(src, exe, flavour, std=std)
        if rc == 0:
            break
        by, loose = ccmon.attribute(se)
        bad = {k // 10 for k in by}
        if not bad:
            raise core.Inconclusive(f"c08 shard {si} ({flavour} {std}) failed to compile: {se[:400]}")
        for i in insts:
            if i["id"] in bad:
                dropped.append({"id": i["id"], "desc": f'{i["r1"]} x{i["s1"]} vs {i["r2"]} x{i["s2"]}', "flavour": flavour, "err": [v for k, v in by.items() if k // 10 == i["id"]][0][0][:160]})
        insts = [i for i in insts if i["id"] not in bad]
    else:
        raise core.Inconclusive(f"c08 shard {si} still fails to compile")
    rc, so, se = core.sh([exe, str(nrandom), str(core.sub_seed("c08", si) % 2 ** 62)], timeout=1800)
    os.unlink(exe)
    if rc != 0 or '"ev":"done"' not in so:
        raise core.Inconclusive(f"c08 shard {si} ({flavour}) run failed rc={rc}: {se[-300:]}")
    return [json.loads(l) for l in so.splitlines() if l.startswith("{")]


def run(chk, which="C08"):
    tier = chk.tier
    insts = plan(tier)
    by_id = {i["id"]: i for i in insts}
    nsh = 16 if tier == "quick" else 32
    shards = [insts[k::nsh] for k in range(nsh)]
    cfgs = [("G_trap", "c++14"), ("L_trap", "c++20")] if tier == "quick" else [("G_trap", "c++14"), ("L_trap", "c++20"), ("G_trap", "c++20"), ("L_plain", "c++17"), ("G_plain", "c++14"), ("Lub_trap", "c++14")]
    nrandom = 150 if tier == "quick" else 1500
    dropped = []
    jobs = [(si, sh, fl, std) for fl, std in cfgs for si, sh in enumerate(shards)]
    results = core.pmap(lambda j: (j[2], j[3], build_and_run(j[0], j[1], j[2], j[3], nrandom, dropped)), jobs)
    core.reach(chk, emit_tu([i for i in insts if i["id"] not in {d["id"] for d in dropped}][:24]), [[40, 1]], std="c++20")
    evals = 0
    nontrivial = set()
    per = {}
    digests = {}
    for fl, std, events in results:
        pc = per.setdefault(f"{fl}:{std}", {"evals": 0, "in_domain": 0, "instances": 0, "spaceship_instances": 0})
        for ev in events:
            if ev["ev"] == "mixed":
                evals += ev["evals"]
                pc["evals"] += ev["evals"]
                pc["in_domain"] += ev["in_domain"]
                pc["instances"] += 1
                pc["spaceship_instances"] += ev["spaceship"]
                if ev["in_domain"] > 0 and ev["out_of_domain"] > 0:
                    nontrivial.add(ev["id"])
                i = by_id[ev["id"]]
                for w in ev["wit"]:
                    chk.violation(f'C08|{w["op"]}|{ev["desc"]}|x={w["a"]},{w["b"]}', msg=f'{fl} {std}: {ev["desc"]}: a={w["a"]} b={w["b"]} `{w["op"]}` gives {w["got"]}, exact {w["want"]}')
                if len(chk.cov["samples"]) < 8 and ev["in_domain"]:
                    chk.sample({"pair": ev["desc"], "common_unit_scale": str(i["g"]), "k1": i["k1"], "k2": i["k2"], "config": f"{fl} {std}", "operand_pairs": ev["evals"], "in_domain": ev["in_domain"]})
            elif ev["ev"] == "traps":
                for r in ev["recs"]:
                    i = by_id.get(r["inst"])
                    if r["phase"] == "OPERATION" and i:
                        if fl.startswith("L_trap") and i["kind"] == "int" and not INT_REPS[i["r1"]][1]:
                            # unsigned arithmetic wraps legitimately in user-visible '-' and '%' on unsigned reps (the raw operation is defined);
                            # only UB counts here, which the gcc/clang UB-only builds decide
                            chk.lead(f'unsigned_wrap|{i["r1"]}|{i["r2"]}', a=r["aux0"], b=r["aux1"])
                        else:
                            chk.violation(f'C08|trap|{i["r1"]} x{i["s1"]} vs {i["r2"]} x{i["s2"]}|x={r["aux0"]},{r["aux1"]}',
                                          msg=f'{fl} {std}: sanitizer trap inside a mixed-unit operation on an in-domain operand pair (bits {r["aux0"]:#x}, {r["aux1"]:#x})')
                    elif r["phase"] != "OPERATION":
                        chk.fail_inconclusive(f"trap in harness phase {r['phase']} ({fl})")
    chk.add_evals(evals, len(nontrivial))
    chk.cov["rule"] = ("instance = (scale1, rep1, scale2, rep2) with rational scales (integer, reciprocal and general rational ratios) and same-signedness integral rep pairs the policy model admits, plus floating pairs; "
                       "operand pairs: all values of an 8-bit operand x all partner values, otherwise boundary (per-operand overflow thresholds +-2, equal magnitudes +-1 in common units) + random; "
                       "out-of-domain pairs (a scaling to the common unit overflows) are counted and skipped; non-trivial instance = saw both in-domain and out-of-domain pairs")
    chk.notes.update({"per_config": per, "instances": len(insts), "rejected_by_library": dropped[:30]})
    if len(dropped) > len(insts) * len(cfgs) // 3:
        chk.fail_inconclusive(f"{len(dropped)} instances rejected by the library's policy")
    chk.assumptions += ["exact rational order by 128-bit cross-multiplication; remainder = C++ truncated-division remainder of the two common-unit values",
                        "floating reps: + and - within 2*(3ulp(A)+3ulp(B)) + 1 ulp(result); comparisons not judged when |A-B| is inside that band"]
    return chk
