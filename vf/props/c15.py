"""C15: unit-aware math functions (Plane A + refusal probes)."""
import json
import os
from fractions import Fraction

from .. import ccmon, core

PI = "3.14159265358979323846264338327950288419716939937510L"
ROUND_PAIRS = [("au::Meters", "au::Kilo<au::Meters>", "1.0L/1000.0L"), ("au::Kilo<au::Meters>", "au::Meters", "1000.0L"), ("au::Feet", "au::Meters", "381.0L/1250.0L"),
               ("au::Meters", "au::Feet", "1250.0L/381.0L"), ("au::Degrees", "au::Radians", f"{PI}/180.0L"), ("au::Radians", "au::Degrees", f"180.0L/{PI}"),
               ("au::Revolutions", "au::Degrees", "360.0L"), ("au::Inches", "au::Feet", "1.0L/12.0L"), ("au::Meters", "au::Meters", "1.0L"), ("au::Miles", "au::Kilo<au::Meters>", "1.609344L"),
               ("au::Seconds", "au::Minutes", "1.0L/60.0L"), ("au::Celsius", "au::Fahrenheit", "9.0L/5.0L")]
# QuantityPoint operands: (source point unit, rounding unit, scale factor, origin difference in the rounding unit)
ROUND_PT_PAIRS = [("au::Celsius", "au::Kelvins", "1.0L", "273.15L"), ("au::Kelvins", "au::Celsius", "1.0L", "-273.15L"), ("au::Celsius", "au::Fahrenheit", "9.0L/5.0L", "32.0L"),
                  ("au::Fahrenheit", "au::Celsius", "5.0L/9.0L", "-160.0L/9.0L"), ("au::Fahrenheit", "au::Kelvins", "5.0L/9.0L", "45967.0L/180.0L"), ("au::Kelvins", "au::Milli<au::Kelvins>", "1000.0L", "0.0L"),
                  ("au::Meters", "au::Kilo<au::Meters>", "1.0L/1000.0L", "0.0L"), ("au::Celsius", "au::Celsius", "1.0L", "0.0L"), ("au::Milli<au::Celsius>", "au::Kelvins", "1.0L/1000.0L", "273.15L"),
                  ("au::Celsius", "au::Milli<au::Kelvins>", "1000.0L", "273150.0L")]
ROUND_REPS = ["int16_t", "int32_t", "int64_t", "float", "double"]
PREF = {"Pico": -12, "Nano": -9, "Micro": -6, "Milli": -3, "": 0, "Kilo": 3, "Mega": 6, "Giga": 9}
INT_MAX = {"int8_t": 127, "uint8_t": 255, "int16_t": 32767, "uint16_t": 65535, "int32_t": 2 ** 31 - 1, "uint32_t": 2 ** 32 - 1, "int64_t": 2 ** 63 - 1, "uint64_t": 2 ** 64 - 1}
TRIG = [("au::Degrees", f"{PI}/180.0L", False), ("au::Radians", "1.0L", True), ("au::Revolutions", f"2.0L*{PI}", False), ("au::Arcminutes", f"{PI}/10800.0L", False), ("au::Milli<au::Radians>", "0.001L", False)]
TWO = [("au::Feet", "au::Inches", "au::Inches", 12, 1), ("au::Meters", "au::Milli<au::Meters>", "au::Milli<au::Meters>", 1000, 1), ("au::Meters", "au::Meters", "au::Meters", 1, 1),
       ("au::Yards", "au::Feet", "au::Feet", 3, 1), ("au::Hours", "au::Minutes", "au::Minutes", 60, 1), ("au::Inches", "au::Feet", "au::Inches", 1, 12),
       ("au::Kilo<au::Grams>", "au::Grams", "au::Grams", 1000, 1)]
MISC_UNITS = ["au::Meters", "au::Hertz", "decltype(au::Meters{} / au::Seconds{})", "au::Kilo<au::Pascals>"]


def unit(prefix, base):
    return f"au::{prefix}<au::{base}>" if prefix else f"au::{base}"


def plan(tier):
    rnd = core.rng("c15", tier)
    inst = []
    iid = 1
    for src, dst, f in ROUND_PAIRS:
        for rep in ROUND_REPS:
            inst.append({"id": iid, "kind": "round", "code": f'vfm15::run_rounding<{src}, {rep}, {dst}>(ID, "{src}->{dst}:{rep}", {f}, nrandom, seed ^ ID);'})
            iid += 1
    for src, dst, f, off in ROUND_PT_PAIRS:
        for rep in ROUND_REPS:
            inst.append({"id": iid, "kind": "round", "code": f'vfm15::run_rounding<{src}, {rep}, {dst}, true>(ID, "point {src}->{dst}:{rep}", {f}, nrandom, seed ^ ID, {off});'})
            iid += 1
    inv_cases = []
    for sp, se in PREF.items():
        for dp, de in PREF.items():
            for sb, db in (("Hertz", "Seconds"), ("Seconds", "Hertz")):
                k_exp = -(se + de)
                if k_exp < 0:
                    continue
                inv_cases.append((unit(sp, sb), unit(dp, db), 10 ** k_exp))
    # arbitrary K through a scaled source unit: K = 1 / (Hz/K * s)
    for K in (2, 10, 63, 64, 65, 100, 127, 128, 255, 1000, 16959, 16960, 16961, 20000, 32767, 40000, 65535, 65536, 999999, 1000000, 1000001, 16777216, 2 ** 31 - 1, 2 ** 31, 10 ** 12 + 39):
        inv_cases.append((f"decltype(au::Hertz{{}} / au::mag<{K}>())", "au::Seconds", K))
    for src, dst, K in inv_cases:
        for rep in ("int32_t", "int64_t", "uint64_t", "float", "double"):
            if rep in INT_MAX and K > INT_MAX[rep]:
                continue
            if K >= 2 ** 64:
                continue  # (the harness takes K as a 64-bit literal as well)
            if tier == "quick" and rnd.random() < 0.5:
                continue
            implicit = "true" if (rep not in INT_MAX or K >= 10 ** 6) else "false"
            inst.append({"id": iid, "kind": "inv", "code": f'vfm15::Inv<{src}, {rep}, {dst}, {implicit}>::run(ID, "inverse {src}->{dst}:{rep} K={K}", {K}ull, {K}.0L, nrandom, seed ^ ID);'})
            iid += 1
    # explicit-rep inversion with a target rep other than the source rep
    mixed = [("double", "int64_t"), ("float", "int32_t"), ("double", "int32_t"), ("float", "int64_t"), ("int32_t", "double"), ("int64_t", "float"), ("float", "double"), ("double", "float"),
             ("int32_t", "int64_t"), ("int64_t", "int32_t"), ("double", "uint64_t"), ("uint32_t", "int64_t")]
    mcases = [c for c in inv_cases if c[2] in (10 ** 3, 10 ** 6, 10 ** 9, 10 ** 12, 20000, 65536, 999999, 16777216)]
    rnd.shuffle(mcases)
    for src, dst, K in mcases[: (10 if tier == "quick" else 60)]:
        for r, t in (rnd.sample(mixed, 4) if tier == "quick" else mixed):
            cmax = max(INT_MAX.get(r, 0), INT_MAX.get(t, 0))
            if r in INT_MAX and t in INT_MAX and K > cmax:
                continue
            inst.append({"id": iid, "kind": "invmixed", "code": f'vfm15::run_inv_mixed<{src}, {r}, {dst}, {t}>(ID, "inverse<{t}> {src}:{r}->{dst} K={K}", {K}.0L, nrandom, seed ^ ID);'})
            iid += 1
    for au_, f, ident in TRIG:
        for rep in ("double", "float", "long double", "int32_t", "int16_t"):
            inst.append({"id": iid, "kind": "trig", "code": f'vfm15::run_trig<{au_}, {rep}>(ID, "trig {au_}:{rep}", {f}, {"true" if ident and rep in ("double", "float", "long double") else "false"}, nrandom, seed ^ ID);'})
            iid += 1
    for u1, u2, cu, k1, k2 in TWO:
        for rep in ("double", "float", "long double"):
            inst.append({"id": iid, "kind": "two", "code": f'vfm15::run_two<{u1}, {u2}, {rep}, {cu}>(ID, "two {u1},{u2}:{rep}", {k1}.0L, {k2}.0L, nrandom, seed ^ ID);'})
            iid += 1
    for u in MISC_UNITS:
        for rep in ("double", "float", "int32_t", "int8_t", "int16_t", "int64_t", "long double"):
            inst.append({"id": iid, "kind": "misc", "code": f'vfm15::run_misc<{u}, {rep}>(ID, "misc {u}:{rep}", nrandom, seed ^ ID);'})
            iid += 1
    for i in inst:
        i["code"] = i["code"].replace("ID", str(i["id"]))
        i["desc"] = i["code"][:160]
    return inst, inv_cases


HEADERS = ["meters", "feet", "inches", "miles", "yards", "degrees", "radians", "revolutions", "arcminutes", "seconds", "minutes", "hours", "hertz", "celsius", "fahrenheit", "grams", "pascals"]
INC = "\n".join(f'#include "au/units/{h}.hh"' for h in HEADERS)


def emit_tu(insts):
    L = ['#include "au/au.hh"', INC, '#include "vf_math.hh"', "#include <cstdint>", "int main(int argc, char **argv) {",
         "  unsigned long long nrandom = argc > 1 ? strtoull(argv[1], 0, 10) : 100, seed = argc > 2 ? strtoull(argv[2], 0, 10) : 1;", "  vf::install_handlers();"]
    for i in insts:
        L.append(f'#line {i["id"] * 10} "vfprobe"')
        L.append("  { " + i["code"] + " }")
    L.append('#line 1 "vftail"')
    L += ["  vf::print_traps_json(); vf::print_diag_json();", '  printf("{\\"ev\\":\\"done\\"}\\n");', "  return 0;", "}"]
    return "\n".join(L) + "\n"


def build_and_run(si, insts, flavour, nrandom, dropped):
    d = core.subdir(f"c15_{flavour}")
    src = os.path.join(d, f"s{si}.cc")
    exe = os.path.join(d, f"s{si}.exe")
    insts = list(insts)
    for attempt in range(12):
        core.write(src, emit_tu(insts))
        rc, se = core.build(src, exe, flavour)
        if rc == 0:
            break
        by, loose = ccmon.attribute(se)
        bad = {k // 10 for k in by}
        if not bad:
            raise core.Inconclusive(f"c15 shard {si} ({flavour}) failed to compile: {se[:500]}")
        for x in insts:
            if x["id"] in bad:
                dropped.append({"id": x["id"], "desc": x["desc"], "err": [v for k, v in by.items() if k // 10 == x["id"]][0][0][:200]})
        insts = [x for x in insts if x["id"] not in bad]
    else:
        raise core.Inconclusive(f"c15 shard {si} still fails to compile")
    rc, so, se = core.sh([exe, str(nrandom), str(core.sub_seed("c15", si) % 2 ** 62)], timeout=1800)
    os.unlink(exe)
    if rc != 0 or '"ev":"done"' not in so:
        raise core.Inconclusive(f"c15 shard {si} ({flavour}) run failed rc={rc}: {se[-300:]}")
    return [json.loads(l) for l in so.splitlines() if l.startswith("{")]


def refusal_probes(inv_cases):
    P = []
    pid = 1
    for src, dst, K in inv_cases:
        for rep, mx in INT_MAX.items():
            lit = f"{rep}{{5}}"
            if K > mx:
                expect = "reject"  # not even representable
            else:
                expect = "accept" if K >= 10 ** 6 else "reject"
            # one entry point per probe: the refusal of one spelling must not hide the acceptance of the other
            for form, call in (("inverse_as", f"inverse_as({dst}{{}}, q)"), ("inverse_in", f"inverse_in({dst}{{}}, q)")):
                P.append({"id": pid, "name": f"implicit_{form}|{src}->{dst}|{rep}|K={K}", "expect": expect, "dedup_key": (src, dst, rep),
                          "text": f"void vf_p{pid}() {{ using namespace au; auto q = make_quantity<{src}>({lit}); auto r = {call}; (void)r; }}"})
                pid += 1
            if K <= mx:
                for form in ("inverse_as", "inverse_in"):
                    P.append({"id": pid, "name": f"explicit_{form}|{src}->{dst}|{rep}|K={K}", "expect": "accept", "dedup_key": (src, dst, rep, "e"),
                              "text": f"void vf_p{pid}() {{ using namespace au; auto q = make_quantity<{src}>({lit}); auto r = {form}<{rep}>({dst}{{}}, q); (void)r; }}"})
                    pid += 1
    for f in ("sin", "cos", "tan"):
        P.append({"id": pid, "name": f"{f}_non_angle", "expect": "reject", "text": f"void vf_p{pid}() {{ using namespace au; auto r = {f}(meters(1.0)); (void)r; }}"})
        pid += 1
        P.append({"id": pid, "name": f"{f}_angle", "expect": "accept", "text": f"void vf_p{pid}() {{ using namespace au; auto r = {f}(degrees(1.0)); (void)r; }}"})
        pid += 1
    P.append({"id": pid, "name": "inverse_wrong_dimension", "expect": "reject", "text": f"void vf_p{pid}() {{ using namespace au; auto r = inverse_as(meters, hertz(5.0)); (void)r; }}"})
    pid += 1
    P.append({"id": pid, "name": "float_inverse_small_K", "expect": "accept", "text": f"void vf_p{pid}() {{ using namespace au; auto r = inverse_as(seconds, hertz(5.0)); (void)r; }}"})
    return P


def run(chk, which="C15"):
    tier = chk.tier
    insts, inv_cases = plan(tier)
    by_id = {x["id"]: x for x in insts}
    nsh = 16 if tier == "quick" else 32
    shards = [insts[k::nsh] for k in range(nsh)]
    flav = ["G_trap"] if tier == "quick" else ["G_trap", "Lub_trap", "L_plain"]
    nrandom = 300 if tier == "quick" else 5000
    dropped = []
    jobs = [(si, sh, fl) for fl in flav for si, sh in enumerate(shards)]
    results = core.pmap(lambda j: (j[2], build_and_run(j[0], j[1], j[2], nrandom, dropped)), jobs)
    core.reach(chk, emit_tu([x for x in insts if x["id"] not in {d["id"] for d in dropped}][::11][:40]), [[60, 1]])
    probes = refusal_probes(inv_cases if tier == "thorough" else inv_cases[::2] + inv_cases[-25:])
    pre = '#include "au/au.hh"\n' + INC + "\n#include <cstdint>\n"
    cfgs = [(core.GXX, "c++14"), (core.CLANGXX, "c++17")] if tier == "quick" else core.CONFIGS
    pres = core.pmap(lambda cfg: (cfg, ccmon.ProbeRun(pre, cfg[0], cfg[1], batch=60).run(probes, tag="c15p")), cfgs, workers=3)
    evals = 0
    distinct = set()
    kinds = {}
    for fl, events in results:
        for ev in events:
            if ev["ev"] in ("mround", "minv", "mtrig", "mtwo", "mmisc"):
                evals += ev["evals"]
                kinds[ev["ev"]] = kinds.get(ev["ev"], 0) + ev["evals"]
                distinct.add((ev["ev"], ev["id"]))
                for w in ev["wit"]:
                    chk.violation(f'C15|{w["op"]}|{ev["desc"][:140]}|x={w["a"]},{w["b"]}', msg=f'{fl}: {ev["desc"][:160]}: `{w["op"]}` at {w["a"]} (, {w["b"]}) gives {w["got"]}, required {w["want"]}')
                if len(chk.cov["samples"]) < 10 and ev["evals"] and ev["id"] % 5 == 0:
                    chk.sample({"instance": ev["desc"], "build": fl, "evaluations": ev["evals"], "skipped": ev["skipped"]})
            elif ev["ev"] == "traps":
                for r in ev["recs"]:
                    x = by_id.get(r["inst"])
                    if r["phase"] == "OPERATION" and x:
                        chk.violation(f'C15|trap|{x["desc"][:120]}|x={r["aux0"]},{r["aux1"]}', msg=f'{fl}: UB trapped inside a math function ({x["desc"][:140]}, bits {r["aux0"]:#x})')
                    elif r["phase"] != "OPERATION":
                        chk.fail_inconclusive(f"trap in harness phase {r['phase']} ({fl})")
    nprobe = 0
    byp = {p["id"]: p for p in probes}
    for cfg, res in pres:
        cs = f"{cfg[0]}:{cfg[1]}"
        for pid_, r in res.items():
            p = byp[pid_]
            nprobe += 1
            if r.get("unverified"):
                continue
            distinct.add(("probe", p["name"]))
            if p["expect"] == "reject" and not r["rejected"]:
                chk.violation(f'C15|not_refused|{p["name"]}|cfg={cs}', msg=f'{cs}: {p["name"]} compiles although it must be refused at compile time')
            if p["expect"] == "accept" and r["rejected"]:
                chk.violation(f'C15|refused|{p["name"]}|cfg={cs}', msg=f'{cs}: {p["name"]} is rejected although it must compile: {(r["msgs"] or ["?"])[0][:160]}')
    chk.add_evals(evals + nprobe, len(distinct))
    chk.cov["rule"] = ("rounding: all integers in +-2^16 and boundary/random floats (k, k+1/2, k+-ulp) x unit pairs with integer, reciprocal, rational and irrational ratios x 5 reps, for quantities and for quantity points (10 point-unit pairs incl. equal scale / different origin), judged against the exact value with a "
                       "band of 8 eps|v| for the conversion; inversion: every time/frequency prefix pair among pico..giga with integer K, n = 1..1000 exhaustively + values around K, explicit and implicit rep forms, "
                       "inverse(inverse(n)) == n; cmath wrappers: neighbourhood oracle (bitwise std::f on one of the <=5 (or 25) neighbours of the exactly converted operands); refusal probes for every integral rep "
                       "incl. 8/16-bit; distinct_nontrivial = distinct instances + probe kinds")
    chk.notes.update({"instances": len(insts), "evaluations_by_kind": kinds, "refusal_probes": nprobe, "rejected_by_library": dropped[:20], "n_rejected": len(dropped)})
    return chk
