"""C03 + C04: same-rep integer (and, for C04, floating) conversions and their run-time checkers.

One harness emits both event streams; `./check C03` reads the conversion-result fields and the
OPERATION-phase traps, `./check C04` reads the checker fields and the CHECKER-phase traps.
"""
import json
import math
import os
from fractions import Fraction

from .. import ccmon, core, numth

INT_TYPES = [("int8_t", 8, True), ("uint8_t", 8, False), ("int16_t", 16, True), ("uint16_t", 16, False),
             ("int32_t", 32, True), ("uint32_t", 32, False), ("int64_t", 64, True), ("uint64_t", 64, False)]
FLOAT_TYPES = ["float", "double", "long double"]
U64 = 2 ** 64


def tmax(bits, signed):
    return 2 ** (bits - 1) - 1 if signed else 2 ** bits - 1


def pmax(bits, signed):
    # integer promotion: anything narrower than int becomes int
    return 2 ** 31 - 1 if bits < 32 else tmax(bits, signed)


LIB_RATIOS = [(1, 1), (5, 9), (9, 5), (1000, 1), (1, 1000), (1, 3600), (3600, 1), (201168, 125), (381, 1250), (1250, 381),
              (3, 2), (2, 3), (100, 3), (1, 60), (60, 1), (1852, 1), (127, 5000), (5280, 1), (1, 12), (12, 1), (7, 1),
              (1, 7), (1000000, 1), (1, 1000000), (25146, 15625), (10, 1), (1, 10), (2, 1), (1, 2), (3, 1), (1, 3),
              (1000000000, 1), (1, 1000000000)]
BIG_PRIMES = [2 ** 31 - 1, 2 ** 32 - 5, 2 ** 61 - 1, 2 ** 63 - 25, 2 ** 63 + 29, 2 ** 64 - 59, 65521, 65537, 251, 257, 127, 131,
              32749, 32771, 4294967311]
POOL = [2, 3, 5, 7, 11, 13, 17, 19, 23, 29, 31, 37, 41, 43, 47, 53, 59, 61, 67, 71, 73, 79, 83, 89, 97, 101, 127, 131, 251, 257,
        509, 521, 1021, 1031, 7919, 32749, 32771, 65521, 65537, 1000003, 16777213, 16777259, 2 ** 31 - 1, 2 ** 32 - 5, 4294967311]


def _norm(n, d):
    g = math.gcd(n, d)
    return n // g, d // g


def factor_grid(bits, signed, tier, rnd):
    tm, pm = tmax(bits, signed), pmax(bits, signed)
    s = set()
    for n, d in LIB_RATIOS:
        s.add((n, d))
    cands = []
    # powers of two and ten around the type's and the promoted type's limits
    for k in {bits - 2, bits - 1, bits, 30, 31, 32, 62, 63}:
        if 0 < k < 64:
            cands.append(2 ** k)
    for m in (tm, pm):
        k = int(math.log10(m))
        cands += [10 ** k, 10 ** (k + 1)] if 10 ** (k + 1) < U64 else [10 ** k]
    # limits and their neighbours, sqrt neighbours
    for m in {tm, pm}:
        cands += [m - 1, m, m + 1]
        r = math.isqrt(m)
        cands += [r - 1, r, r + 1, r + 2]
        cands += [m // 2, m // 2 + 1, m // 3, m // 2147, m // 2147 + 1, m // 2147 - 1]
    cands += [p for p in BIG_PRIMES]
    cands = sorted({c for c in cands if 1 < c < U64})
    for c in cands:
        s.add((c, 1))
        s.add((1, c))
    # rational mixes of the candidates with small co-factors
    smalls = [2, 3, 5, 7, 9, 10, 11, 127, 1000]
    for c in cands:
        for q in rnd.sample(smalls, 2):
            s.add(_norm(c, q))
            s.add(_norm(q, c))
    # pairs of candidates
    for _ in range(12 if tier == "quick" else 60):
        a, b = rnd.choice(cands), rnd.choice(cands)
        if a != b:
            s.add(_norm(a, b))
    # random coprime pairs with log-uniform sizes, built from a prime pool (so factorisations are known)
    for _ in range(10 if tier == "quick" else 80):
        def rnd_smooth(maxbits):
            target = rnd.uniform(1, maxbits)
            v = 1
            for _ in range(40):
                p = rnd.choice(POOL)
                if (v * p).bit_length() > target or v * p >= U64:
                    continue
                v *= p
            return v
        mb = rnd.choice([bits, 31, 63, 64, bits // 2 + 1])
        s.add(_norm(rnd_smooth(mb), rnd_smooth(rnd.choice([bits, 31, 63, 64, 8]))))
    out = sorted(x for x in s if x[0] >= 1 and x[1] >= 1 and x[0] < U64 and x[1] < U64)
    return out


def near_limit_pairs(bits, signed):
    """rational factors whose numerator AND denominator sit near the rep's maximum (both fit the rep, their product does not fit
    the promoted type for the narrow reps): values that are multiples of the denominator exist, and the product by the numerator
    is the step that overflows"""
    tm = tmax(bits, signed)
    near = sorted({tm, tm - 1, tm - 2, tm * 15 // 16, tm * 7 // 8 + 1, tm * 3 // 4 + 1, tm // 2 + 1, tm // 2 + 2, tm // 2 - 1, math.isqrt(pmax(bits, signed)) + 1})
    out = []
    for a in near:
        for b in near:
            if a != b and a > 1 and b > 1:
                n, d = _norm(a, b)
                if d > 1 and n > 1:
                    out.append((n, d))
    return sorted(set(out))


def conv_level(bits, signed, n, d):
    """0: conversion does not compile, 1: coerce_* compiles, 2: also policy-checked .in/.as."""
    tm, pm = tmax(bits, signed), pmax(bits, signed)
    if d == 1:
        ok = n <= tm
    elif n == 1:
        ok = d <= tm
    else:
        ok = n <= pm and d <= pm
    if not ok:
        return 0
    if d == 1 and (n == 1 or (tm >= 2147 and tm // n >= 2147)):
        return 2
    return 1


def dst_unit_expr(n, d):
    # unit_ratio(Src, Dst) must equal n/d  =>  Dst = Src * (d/n)
    return f"decltype(VfBase{{}} * ({numth.mag_expr(d)} / {numth.mag_expr(n)}))"


FLOAT_FACTORS = [
    ("1", "1.0L", Fraction(1)), ("1000", "1000.0L", Fraction(1000)), ("1/1000", "1.0L/1000.0L", Fraction(1, 1000)),
    ("5/9", "5.0L/9.0L", Fraction(5, 9)), ("1250/381", "1250.0L/381.0L", Fraction(1250, 381)),
    ("2^40", "1099511627776.0L", Fraction(2 ** 40)), ("10^30", "1e30L", Fraction(10 ** 30)),
    ("1/10^30", "1e-30L", Fraction(1, 10 ** 30)), ("3", "3.0L", Fraction(3)), ("pi/180", "VF_PI/180.0L", None),
    ("180/pi", "180.0L/VF_PI", None), ("10^38", "1e38L", Fraction(10 ** 38)), ("10^300", "1e300L", Fraction(10 ** 300)),
    # ratios that fit every floating type although their numerator or denominator alone exceeds float's range
    ("10^39/7", "1e39L/7.0L", Fraction(10 ** 39, 7)), ("7/10^39", "7.0L/1e39L", Fraction(7, 10 ** 39)), ("3^90/10^41", "8727963568087712425891397479476727340041449.0L/1e41L", Fraction(3 ** 90, 10 ** 41)),
]


def float_dst(fname):
    table = {
        "1": "VfBase", "1000": "decltype(VfBase{} / au::mag<1000>())", "1/1000": "decltype(VfBase{} * au::mag<1000>())",
        "5/9": "decltype(VfBase{} * au::mag<9>() / au::mag<5>())", "1250/381": "decltype(VfBase{} * au::mag<381>() / au::mag<1250>())",
        "2^40": "decltype(VfBase{} / au::pow<40>(au::mag<2>()))", "10^30": "decltype(VfBase{} / au::pow<30>(au::mag<10>()))",
        "1/10^30": "decltype(VfBase{} * au::pow<30>(au::mag<10>()))", "3": "decltype(VfBase{} / au::mag<3>())",
        "pi/180": "decltype(VfBase{} * au::mag<180>() / au::Magnitude<au::Pi>{})",
        "180/pi": "decltype(VfBase{} * au::Magnitude<au::Pi>{} / au::mag<180>())",
        "10^38": "decltype(VfBase{} / au::pow<38>(au::mag<10>()))", "10^300": "decltype(VfBase{} / au::pow<300>(au::mag<10>()))",
        "10^39/7": "decltype(VfBase{} * au::mag<7>() / au::pow<39>(au::mag<10>()))", "7/10^39": "decltype(VfBase{} * au::pow<39>(au::mag<10>()) / au::mag<7>())",
        "3^90/10^41": "decltype(VfBase{} * au::pow<41>(au::mag<10>()) / au::pow<90>(au::mag<3>()))",
    }
    return table[fname]


def float_conv_ok(tname, fname):
    # the factor must be representable in T for the conversion to compile
    if tname == "float" and fname in ("10^300",):
        return 0
    if tname == "float" and fname == "10^38":
        return 1  # 1e38 < FLT_MAX
    return 1


PREAMBLE = r'''
#include "vf_conv.hh"
#include <cstdint>
struct VfBase : au::UnitImpl<au::Length> {};
static const long double VF_PI = 3.14159265358979323846264338327950288419716939937510L;
'''


def emit_tu(instances, finstances):
    lines = [PREAMBLE, "int main(int argc, char **argv) {",
             "  unsigned long long nrandom = argc > 1 ? strtoull(argv[1], 0, 10) : 1000, seed = argc > 2 ? strtoull(argv[2], 0, 10) : 1; int exh32 = argc > 3 ? atoi(argv[3]) : 0; (void)exh32;",
             "  vf::install_handlers();"]
    for inst in instances:
        mode = "0" if inst["bits"] <= 16 else ("(exh32 ? 0 : 1)" if inst["bits"] == 32 and inst.get("exh32") else "1")
        lines.append(f'#line {inst["id"] * 10} "vfprobe"')
        lines.append(f'  {{ using Dst = {dst_unit_expr(inst["N"], inst["D"])}; vfc::run_int_instance<{inst["T"]}, VfBase, Dst, {inst["conv"]}>({inst["id"]}, "{inst["T"]}", {inst["N"]}ull, {inst["D"]}ull, {mode}, nrandom, seed ^ {inst["id"]}ull); }}')
    for f in finstances:
        lines.append(f'#line {f["id"] * 10} "vfprobe"')
        lines.append(f'  {{ using Dst = {float_dst(f["factor"])}; vfc::run_float_instance<{f["T"]}, VfBase, Dst, {f["conv"]}>({f["id"]}, "{f["T"]}", "{f["factor"]}", {f["fexpr"]}, nrandom, seed ^ {f["id"]}ull); }}')
    lines.append('#line 1 "vftail"')
    lines += ["  vf::print_traps_json(); vf::print_diag_json();", '  printf("{\\"ev\\":\\"done\\"}\\n");', "  return 0;", "}"]
    return "\n".join(lines) + "\n"


def plan(tier):
    rnd = core.rng("conv", tier)
    instances = []
    iid = 1
    per_type = 56 if tier == "quick" else 220
    for tname, bits, signed in INT_TYPES:
        grid = factor_grid(bits, signed, tier, rnd)
        # always keep the structured part; subsample to the budget, preferring compiled instances
        comp = [g for g in grid if conv_level(bits, signed, *g) > 0]
        nonc = [g for g in grid if conv_level(bits, signed, *g) == 0]
        rnd.shuffle(comp)
        rnd.shuffle(nonc)
        chosen = comp[:per_type] + nonc[:max(6, per_type // 8)]
        # the near-limit family is kept in every run (all of it for the exhaustively swept 8/16-bit reps)
        nl = [g for g in near_limit_pairs(bits, signed) if conv_level(bits, signed, *g) > 0 and g not in chosen]
        rnd.shuffle(nl)
        chosen += nl[: (24 if bits <= 16 else 8) * (1 if tier == "quick" else 3)]
        n32 = 0
        for n, d in chosen:
            inst = {"id": iid, "T": tname, "bits": bits, "signed": signed, "N": n, "D": d, "conv": conv_level(bits, signed, n, d)}
            if bits == 32 and inst["conv"] and n32 < 48:
                inst["exh32"] = True
                n32 += 1
            instances.append(inst)
            iid += 1
    finst = []
    for tname in FLOAT_TYPES:
        for fname, fexpr, _ in FLOAT_FACTORS:
            finst.append({"id": iid, "T": tname, "factor": fname, "fexpr": fexpr, "conv": float_conv_ok(tname, fname)})
            iid += 1
    return instances, finst


def shard(instances, finst, nshards):
    # spread types evenly: round-robin after sorting by (type, id)
    shards = [([], []) for _ in range(nshards)]
    for i, inst in enumerate(instances):
        shards[i % nshards][0].append(inst)
    for i, f in enumerate(finst):
        shards[i % nshards][1].append(f)
    return shards


def build_and_run(sh_id, insts, finsts, flavour, nrandom, exh32, chk, dropped):
    d = core.subdir(f"conv_{flavour}")
    src = os.path.join(d, f"s{sh_id}.cc")
    exe = os.path.join(d, f"s{sh_id}.exe")
    insts = list(insts)
    finsts = list(finsts)
    for attempt in range(12):
        core.write(src, emit_tu(insts, finsts))
        rc, se = core.build(src, exe, flavour)
        if rc == 0:
            break
        # lazy acceptance pass: attribute the compile errors to instance lines, drop those instances
        by, loose = ccmon.attribute(se)
        bad = {k // 10 for k in by}
        if not bad:
            raise core.Inconclusive(f"conv shard {sh_id} ({flavour}) failed to compile with no attributable instance: {se[:400]}")
        for i in insts + finsts:
            if i["id"] in bad:
                dropped.append({"id": i["id"], "T": i["T"], "N": i.get("N"), "D": i.get("D"), "factor": i.get("factor"),
                                "conv": i["conv"], "err": by[[k for k in by if k // 10 == i["id"]][0]][0][:200]})
        insts = [i for i in insts if i["id"] not in bad]
        finsts = [i for i in finsts if i["id"] not in bad]
    else:
        raise core.Inconclusive(f"conv shard {sh_id} ({flavour}) still fails to compile after dropping instances")
    timeout = 7200 if exh32 else 900
    rc, so, se = core.sh([exe, str(nrandom), str(core.sub_seed("conv", sh_id) % (2 ** 63)), "1" if exh32 else "0"], timeout=timeout)
    os.unlink(exe)
    if rc != 0 or '"ev":"done"' not in so:
        raise core.Inconclusive(f"conv shard {sh_id} ({flavour}) run failed rc={rc}: {se[-300:]}")
    events = [json.loads(l) for l in so.splitlines() if l.startswith("{")]
    return events


def run(chk, which):
    """which: 'C03' or 'C04'"""
    tier = chk.tier
    instances, finst = plan(tier)
    by_id = {i["id"]: i for i in instances + finst}
    nshards = 16 if tier == "quick" else 48
    shards = shard(instances, finst, nshards)
    nrandom = 20000 if tier == "quick" else 400000
    flavours = ["G_trap", "L_trap"] if tier == "quick" else ["G_trap", "L_trap", "G_plain"]
    dropped = []
    jobs = []
    for fl in flavours:
        for si, (a, b) in enumerate(shards):
            jobs.append((si, a, b, fl))

    def do(job):
        si, a, b, fl = job
        exh32 = (fl == "G_plain")
        nr = nrandom * (8 if fl == "G_plain" else 1)
        return fl, si, build_and_run(si, a, b, fl, nr, exh32, chk, dropped)

    results = core.pmap(do, jobs)
    total_evals = 0
    nontrivial = set()
    cleared_total = 0
    per_flavour = {}
    samples_done = 0
    cats = {}
    for fl, si, events in results:
        pf = per_flavour.setdefault(fl, {"evals": 0, "cleared": 0, "traps_operation": 0, "traps_checker": 0, "instances": 0})
        for ev in events:
            if ev["ev"] == "inst":
                inst = by_id[ev["id"]]
                pf["evals"] += ev["evals"]
                pf["cleared"] += ev["cleared"]
                pf["instances"] += 1
                total_evals += ev["evals"]
                cleared_total += ev["cleared"]
                cat = ("int_mult" if inst["D"] == 1 else "int_div" if inst["N"] == 1 else "rational") + ("" if inst["conv"] else "_noconv")
                cats[cat] = cats.get(cat, 0) + 1
                # non-trivial: the instance saw both lossy and non-lossy inputs (or it is a no-conv instance)
                if ev["cleared"] > 0 and ev["evals"] > ev["cleared"]:
                    nontrivial.add(ev["id"])
                tag = f'T={ev["T"]}|N={ev["N"]}|D={ev["D"]}'
                mm = ev["mm"]
                for w in ev["wit"]:
                    k = w["kind"]
                    key_base = f'{tag}|x={w["x"]}'
                    if k in ("value", "policy_value"):
                        if which == "C03" and inst["conv"]:
                            chk.violation(f'C03|{k}|{key_base}', msg=f'{fl}: lib cleared x={w["x"]} ({ev["T"]} x{ev["N"]}/{ev["D"]}) but result {w["got"]} != exact {w["want"]} (exact trunc/ovf={w["exact"]})',
                                          flavour=fl, count_in_instance=mm[k], witness=w)
                    else:
                        if which == "C04":
                            if inst["conv"]:
                                chk.violation(f'C04|{k}|{key_base}', msg=f'{fl}: checker [{k}] on {ev["T"]} x{ev["N"]}/{ev["D"]} x={w["x"]}: lib(trunc,ovf,lossy)={w["lib"]} exact(trunc,ovf)={w["exact"]}',
                                              flavour=fl, count_in_instance=mm[k], witness=w)
                            else:
                                chk.lead(f'noconv|{k}|{tag}', x=w["x"], lib=w["lib"], exact=w["exact"], note="conversion does not compile for this factor; property excludes it")
                if samples_done < 10 and ev["cleared"] and ev["lib_ovf"] and ev["id"] % 7 == 0:
                    chk.sample({"T": ev["T"], "N": ev["N"], "D": ev["D"], "stream": ev["stream"], "flavour": fl, "evals": ev["evals"],
                                "cleared_and_converted": ev["cleared"], "lib_trunc_true": ev["lib_trunc"], "lib_ovf_true": ev["lib_ovf"],
                                "exact_trunc_true": ev["ex_trunc"], "exact_ovf_true": ev["ex_ovf"]})
                    samples_done += 1
            elif ev["ev"] == "finst":
                f = by_id[ev["id"]]
                pf["evals"] += ev["evals"]
                total_evals += ev["evals"] if which == "C04" else 0
                if ev["must"] and ev["mustnot"]:
                    nontrivial.add(ev["id"]) if which == "C04" else None
                if which == "C04":
                    for w in ev["wit"]:
                        key = f'C04|float_{w["kind"]}|T={ev["T"]}|factor={ev["factor"]}|x={w["x"]}'
                        if f["conv"]:
                            chk.violation(key, msg=f'{fl}: floating checker {w["kind"]}: {ev["T"]} x {ev["factor"]} at x={w["x"]} reported overflow={w["ovf"]}', flavour=fl)
                        else:
                            chk.lead(key, note="conversion does not compile")
                    if samples_done < 12 and ev["must"]:
                        chk.sample({"T": ev["T"], "factor": ev["factor"], "flavour": fl, "evals": ev["evals"], "judged_must_overflow": ev["must"],
                                    "judged_must_not": ev["mustnot"], "skipped_in_guard_band": ev["band"], "nonfinite": ev["nonfinite"]})
                        samples_done += 1
            elif ev["ev"] == "traps":
                for r in ev["recs"]:
                    inst = by_id.get(r["inst"])
                    if inst is None:
                        continue
                    isint = "N" in inst
                    tag = (f'T={inst["T"]}|N={inst["N"]}|D={inst["D"]}' if isint else f'T={inst["T"]}|factor={inst["factor"]}')
                    xs = r["aux0"]
                    if isint and inst["signed"] and xs >= 2 ** 63:
                        xs -= 2 ** 64
                    if isint and inst["bits"] < 64:
                        # aux0 holds the sign-extended value
                        pass
                    if r["phase"] == "OPERATION":
                        pf["traps_operation"] += 1
                        if which == "C03":
                            chk.violation(f'C03|trap|{tag}|x={xs}', msg=f'{fl}: sanitizer trap (sig {r["sig"]}) inside coerce_in/coerce_as for a checker-cleared input x={xs} ({tag})', flavour=fl)
                    elif r["phase"] == "CHECKER":
                        pf["traps_checker"] += 1
                        if which == "C04":
                            if fl.startswith("G_") and inst["conv"]:
                                chk.violation(f'C04|checker_trap|{tag}|x={xs}', msg=f'{fl}: undefined behaviour trapped while evaluating a checker on x={xs} ({tag})', flavour=fl)
                            else:
                                chk.lead(f'checker_trap|{fl}|{tag}', x=xs, note="non-UB integer check (clang) or non-compiling conversion")
                    else:
                        chk.fail_inconclusive(f"trap in harness phase {r['phase']} inst {r['inst']} case {r['case']} ({fl})")
                if ev["total"] > len(ev["recs"]):
                    chk.fail_inconclusive(f"{ev['total']} traps, record buffer overflowed ({fl} shard {si})")
    core.reach(chk, emit_tu([i for i in instances if i["id"] % 9 == 0][:40], finst[:8]), [[300, 1, 0]])
    chk.add_evals(total_evals, len(nontrivial))
    chk.cov["rule"] = ("instance = (rep T, conversion factor N/D) from the structured+random grid; every instance is executed on all values of T "
                       "(8/16-bit, and 32-bit in the thorough plain build) or on the oracle's threshold neighbourhoods + seeded random values; "
                       "evaluations = (instance, value, build) triples; an instance is non-trivial when its value stream contained both "
                       "checker-cleared and checker-rejected inputs" + ("; floating instances: both must-overflow and must-not-overflow inputs judged" if which == "C04" else ""))
    chk.notes["per_build"] = per_flavour
    chk.notes["instances_planned"] = len(instances) + (len(finst) if which == "C04" else 0)
    chk.notes["instance_categories"] = cats
    chk.notes["rejected_by_library"] = dropped[:40]
    chk.notes["cleared_inputs_converted"] = cleared_total
    mis = [d for d in dropped if d["conv"]]
    if len(mis) > len(instances) // 3:
        chk.fail_inconclusive(f"{len(mis)} instances the model expected to compile were rejected by the library")
    chk.assumptions += [
        "oracle: sign + unsigned 128-bit magnitude arithmetic on (x, N, D); N, D < 2^64",
        "64-bit reps (and 32-bit in the quick tier) are sampled at exact-threshold neighbourhoods, type limits, multiples of D and seeded random values, not enumerated; "
        "agreement there plus exhaustive 8/16-bit runs of the same template is evidence, not proof, that the comparison is a uniform threshold test",
        "which (T, N/D) conversions compile is predicted by the generator and corrected by the compiler's own verdict (instances the library rejects are dropped, not judged)",
    ]
    return chk
