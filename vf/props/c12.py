"""C12: primality test, factor finder and modular helpers against independent oracles."""
import json
import os
import time

from fractions import Fraction

from .. import core, model, numth, planeb

SRC = os.path.join(core.HARNESS, "vf_numth.cc")


def build(flavour):
    exe = os.path.join(core.subdir("c12"), f"numth_{flavour}.exe")
    rc, se = core.build(SRC, exe, flavour)
    if rc != 0:
        raise core.Inconclusive(f"C12 harness does not compile ({flavour}): {se[:500]}")
    return exe


def run_job(job):
    exe, args, timeout, label = job
    for attempt in (1, 2):
        t0 = time.time()
        rc, so, se = core.sh([exe] + [str(a) for a in args], timeout=timeout)
        if rc == -9:
            continue
        if rc != 0 or '"ev":"done"' not in so:
            raise core.Inconclusive(f"C12 job {label} failed rc={rc}: {se[-300:]}")
        return label, [json.loads(l) for l in so.splitlines() if l.startswith("{")], time.time() - t0
    return label, "HANG", timeout


def mag_literals(tier):
    """integers N whose mag<N>() is reified at compile time (written as ONE literal, so the library itself factors it)"""
    rnd = core.rng("c12mag", tier)
    ns = set()
    for k in range(1, 20):
        ns |= {10 ** k, 7 * 10 ** k if 7 * 10 ** k < 2 ** 64 else 10, 10 ** k + 1, 6 ** min(k, 24)}
    for k in range(1, 64):
        ns |= {2 ** k, 2 ** k + 1, 2 ** k - 1, 3 * 2 ** k if 3 * 2 ** k < 2 ** 64 else 2}
    f = 1
    for k in range(2, 21):
        f *= k
        ns.add(f)
    ns |= {2 ** 64 - 1, 2 ** 64 - 59, 2 ** 63 - 25, 2 ** 32 * (2 ** 32 - 5), 4294967291 * 4294967279, 65521 ** 4, 65537 ** 3, 3 ** 40, 5 ** 27, 7 ** 22, 1000000007 * 998244353,
           547 * 569 * 727 * 1237, 2 ** 10 * 5 ** 10 * 3,
           # strong pseudoprimes to bases {2,3}, {2,3,5}, {2,3,5,7} and the classic Lucas / Fibonacci pseudoprimes, as literals
           1373653, 1530787, 1987021, 2284453, 3116107, 5173601, 6787327, 11541307, 13694761, 15978007, 16070429, 16879501, 25326001, 3215031751, 2152302898747, 3474749660383, 5459, 5777, 10877, 16109, 10 ** 10 * 4294967291, 10 ** 15 * 18446, 2147483647 ** 2}
    pool = [2, 3, 5, 7, 11, 13, 101, 541, 547, 1009, 7919, 65521, 65537, 1000003, 2147483647, 4294967291]
    for _ in range(120 if tier == "quick" else 1200):
        n = 1
        for _ in range(rnd.randint(1, 7)):
            p = rnd.choice(pool)
            if n * p < 2 ** 64:
                n *= p
        ns.add(n)
    for _ in range(30 if tier == "quick" else 300):
        ns.add(rnd.getrandbits(rnd.choice([20, 31, 40, 48])) | 1)
    return sorted(n for n in ns if 1 < n < 2 ** 64)


def run_mag_slice(chk, tier):
    """mag<N>() is the canonical prime factorisation of N; mag<a>() * mag<b>() and mag<a*b>() are the same type (Plane B trace)"""
    rnd = core.rng("c12mag2", tier)
    ns = mag_literals(tier)
    n_tu = 8 if tier == "quick" else 32
    plans = []
    for ti in range(n_tu):
        stmts, entries = [], {}
        sid = 1
        for j, n in enumerate(ns[ti::n_tu]):
            tag = f"g{ti}_{j}"
            entries[tag] = ("lit", n)
            stmts.append((sid, f'vfy::reify_mag<decltype(au::mag<{n}ull>())>("{tag}");'))
            sid += 1
        for j in range(12 if tier == "quick" else 40):
            a, b = rnd.choice(ns), rnd.choice(ns)
            if a * b >= 2 ** 64:
                continue
            tag = f"q{ti}_{j}"
            entries[tag] = ("eq", a, b)
            stmts.append((sid, f'vfy::reify_mag_eq<decltype(au::mag<{a}ull>() * au::mag<{b}ull>()), decltype(au::mag<{a * b}ull>())>("{tag}");'))
            sid += 1
        plans.append((ti, stmts, entries))
    cfgs = [("G_O0", "c++14")] * n_tu
    cfgs[0] = ("L_O0", "c++17")
    results = core.pmap(lambda p: planeb.build_run(f"c12mag_{p[0]}", p[1], {}, cfgs[p[0]][0], cfgs[p[0]][1], extra_includes="#include <cstdint>"), plans)
    judged = 0
    refused = []
    for (ti, stmts, entries), (events, rejected, md5, err) in zip(plans, results):
        if err:
            chk.fail_inconclusive(f"C12 magnitude TU {ti} failed: {err}")
            continue
        by_sid = {s_[0]: s_[1] for s_ in stmts}
        for sid, msgs in rejected.items():
            # "whenever it compiles": a refusal (e.g. the compiler's constexpr step limit on a hard N) is not a wrong factorisation;
            # small N can be factored by the trial-division table alone and must compile
            lit = [e for t_, e in entries.items() if f'("{t_}")' in by_sid[sid]]
            refused.append(by_sid[sid][:120])
            if lit and lit[0][0] == "lit" and lit[0][1] < 2 ** 32:
                chk.violation(f"C12|mag_rejected|N={lit[0][1]}", msg=f"mag<{lit[0][1]}>() does not compile ({cfgs[ti][0]} {cfgs[ti][1]}): {msgs[0][:200]}")
        for ev in events:
            en = entries.get(ev.get("tag"))
            if not en:
                continue
            judged += 1
            if en[0] == "lit":
                want = model.mag_of_fraction(Fraction(en[1]))
                got = model.parse_mag_event(ev["mag"])
                if model.ekey(got) != model.ekey(want):
                    chk.violation(f"C12|mag_factorisation|N={en[1]}", msg=f"mag<{en[1]}>() is {model.ekey(got)}, the prime factorisation of N is {model.ekey(want)} ({cfgs[ti][0]} {cfgs[ti][1]})")
            else:
                _, a, b = en
                if not ev["same_type"] or not ev["op_eq"] or ev["op_ne"]:
                    chk.violation(f"C12|mag_product|a={a}|b={b}", msg=f"mag<{a}>() * mag<{b}>() vs mag<{a * b}>(): same_type={ev['same_type']} ==:{ev['op_eq']} !=:{ev['op_ne']}")
    if judged < len(ns) // 2:
        chk.fail_inconclusive(f"magnitude slice: only {judged} statements judged")
    chk.notes["mag_literals_judged"] = judged
    chk.notes["mag_literals_refused_by_compiler"] = refused[:10]
    return judged


def run(chk, which="C12"):
    tier = chk.tier
    quick = tier == "quick"
    n_mag = run_mag_slice(chk, tier)
    flav = ["G_trap", "L_trap", "G_plain", "L_diag"]
    exes = dict(zip(flav, core.pmap(build, flav)))
    seed = core.sub_seed("c12") % (2 ** 62)
    jobs = []
    n = core.NPROC
    # exhaustive sweep against the sieve
    top = 2 ** 26 if quick else 2 ** 30
    fpf = 2 ** 24 if quick else 2 ** 28
    pieces = n * (2 if quick else 8)
    step = top // pieces
    for i in range(pieces):
        lo, hi = i * step, (i + 1) * step
        fl = "G_trap" if quick else "G_plain"
        jobs.append((exes[fl], ["sieve", lo, hi, fpf], 600 if quick else 7200, f"sieve[{lo},{hi})@{fl}"))
    if not quick:
        for i in range(n):  # the quick range again under the UB-trapping build
            lo, hi = i * (2 ** 26 // n), (i + 1) * (2 ** 26 // n)
            jobs.append((exes["G_trap"], ["sieve", lo, hi, 2 ** 24], 3600, f"sieve[{lo},{hi})@G_trap"))
    for i in range(n):
        jobs.append((exes["G_trap"], ["adv", i, n, 0 if quick else 1, seed], 900, f"adv{i}@G_trap"))
    for i in range(n // 2):
        jobs.append((exes["L_diag"], ["adv", i, n // 2, 0, seed + 1], 900, f"adv{i}@L_diag"))
    for i in range(n):
        jobs.append((exes["G_plain"], ["falsesq", i, n, 14 if quick else 20], 900, f"falsesq{i}@G_plain"))
    for i in range(n):
        jobs.append((exes["G_trap"], ["multi", i, n, 40000 if quick else 1500000, seed + 300], 900 if quick else 7200, f"multi{i}@G_trap"))
    cnt = 2 ** 20 if quick else 2 ** 24
    for i in range(n // 2):
        jobs.append((exes["L_trap"], ["mod", cnt, seed + 100 + i], 900, f"mod{i}@L_trap"))
        jobs.append((exes["G_trap"], ["mod", cnt, seed + 200 + i], 900, f"mod{i}@G_trap"))
    results = core.pmap(run_job, jobs)
    core.reach(chk, SRC, [["sieve", 0, 300000, 150000], ["adv", 0, 64, 0, seed], ["falsesq", 0, 64, 10], ["mod", 30000, seed], ["multi", 0, 1, 3000, seed]], is_file=True)
    tot = {"sieve": 0, "adv": 0, "falsesq": 0, "mod": 0, "multi": 0}
    primes = composites = 0
    info = {"base2_strong_pseudoprimes_checked": 0, "adversarial_set_size": 0, "mul_mod_fast_path": 0, "mul_mod_recursive_path": 0,
            "false_square_candidates": 0, "false_square_hits": 0, "swept_below": top, "find_prime_factor_swept_below": fpf}
    for label, events, wall in results:
        if events == "HANG":
            chk.violation(f"C12|no_return|job={label.split('@')[0]}", msg=f"job {label} did not finish within {wall}s twice (expected seconds): a call does not return")
            continue
        fl = label.split("@")[1]
        for ev in events:
            if ev["ev"] == "numth":
                tot[ev["task"]] += ev["evals"]
                primes += ev["primes"]
                composites += ev["composites"]
                if ev["task"] == "falsesq":
                    info["false_square_candidates"] += ev["evals"]
                    info["false_square_hits"] += ev["false_square_candidates_hit"]
                for w in ev["wit"]:
                    k = w["kind"]
                    if k in ("add_mod", "sub_mod", "mul_mod", "half_mod_odd", "pow_mod"):
                        chk.violation(f'C12|{k}|a={w["a"]}|b={w["b"]}|n={w["c"]}', msg=f'{label}: {k}({w["a"]}, {w["b"]}, n={w["c"]}) = {w["got"]}, exact {w["want"]}')
                    elif k == "is_perfect_square":
                        # internal helper: a wrong answer is only a lead unless is_prime is wrong too (reported separately)
                        chk.lead(f'is_perfect_square|n={w["a"]}', got=w["got"], want=w["want"], job=label)
                    else:
                        chk.violation(f'C12|{k}|n={w["a"]}', msg=f'{label}: {k}({w["a"]}) = {w["got"]}, oracle says {w["want"] if k == "is_prime" else "not a prime divisor"}')
                if len(chk.cov["samples"]) < 8 and ev["evals"]:
                    chk.sample({"job": label, "evaluations": ev["evals"], "oracle_primes": ev["primes"], "oracle_composites": ev["composites"], "mismatches": ev["mm"]})
            elif ev["ev"] == "advinfo":
                info["base2_strong_pseudoprimes_checked"] += ev["base2_strong_pseudoprimes_in_shard"]
                info["adversarial_set_size"] = max(info["adversarial_set_size"], ev["total_set"])
            elif ev["ev"] == "modinfo":
                info["mul_mod_fast_path"] += ev["mul_fast_path"]
                info["mul_mod_recursive_path"] += ev["mul_recursive_path"]
            elif ev["ev"] == "traps":
                for r in ev["recs"]:
                    if r["phase"] == "OPERATION" and r["sig"] == 26:
                        chk.violation(f'C12|no_return|n={r["aux0"]}', msg=f'{label}: a library call on n={r["aux0"]} (aux {r["aux1"]}) did not return within 20 CPU-seconds')
                    elif r["phase"] == "OPERATION":
                        if label.startswith("mod"):
                            chk.violation(f'C12|mod_trap|{fl}|a={r["aux0"]}|b={r["aux1"]}', msg=f'{label}: sanitizer trap ({"wrap-around or UB" if fl.startswith("L") else "UB"}) inside a modular helper, a={r["aux0"]} b={r["aux1"]} n~{r["inst"] * 2}')
                        else:
                            chk.violation(f'C12|ub_trap|n={r["aux0"]}', msg=f'{label}: undefined behaviour trapped inside is_prime/find_prime_factor/is_perfect_square for n={r["aux0"]}')
                    else:
                        chk.fail_inconclusive(f"trap in harness phase {r['phase']} ({label})")
            elif ev["ev"] == "diag":
                for r in ev["recs"]:
                    if r["phase"] == "OPERATION":
                        chk.lead(f'{r["kind"]}|{os.path.basename(r["file"])}:{r["line"]}', first_n=r["aux0"], job=label,
                                 note="non-UB integer sanitizer report inside is_prime/find_prime_factor (recover build); aim a generator at it")
    if info["mul_mod_recursive_path"] == 0 or info["mul_mod_fast_path"] == 0:
        chk.fail_inconclusive("mul_mod: one of the two paths was never exercised")
    chk.add_evals(sum(tot.values()) + n_mag, primes + min(composites, 10 ** 9))
    chk.cov["rule"] = ("evaluation = one call of is_prime / find_prime_factor / is_perfect_square / a modular helper on one input, compared with an independent oracle "
                       "(segmented sieve below the sweep bound, deterministic 12-base Miller-Rabin with 128-bit mulmod above it, 128-bit arithmetic for the helpers); "
                       "distinct_nontrivial = distinct n whose primality was judged (oracle primes + oracle composites)")
    chk.notes.update(info)
    chk.notes["evaluations_by_task"] = tot
    chk.notes["oracle_primes_seen"] = primes
    chk.notes["oracle_composites_seen"] = composites
    chk.assumptions += [
        "64-bit inputs above the sweep bound are sampled adversarially (neighbours of 2^k, semiprimes of primes next to 2^16/2^21/2^31/2^32, p(2p-1), p(3p-2), Chernick Carmichael numbers, squares, "
        "known pseudoprimes, 2-adic 'false square' candidates, products of 3-6 primes above the trial-division table, random), not enumerated; that BPSW has no 64-bit counterexample is literature, not something these runs establish",
        "strong Lucas pseudoprimes are covered only through the exhaustive sweep and the semiprime families (no independent Lucas implementation in the oracle)",
        "mag<N>() written as one literal is reified at compile time for powers of ten/two and their neighbours, factorials, prime powers, products of pool primes and random odd numbers, and compared with an "
        "independent factorisation; mag<a>()*mag<b>() vs mag<a*b>() type identity likewise (also in C11's magnitude trace)",
    ]
    return chk
