"""C06: the implicit-conversion safety surface is total and as documented (Plane C + Plane A)."""
import json
import math
import os
from fractions import Fraction

from .. import ccmon, core, numth

REPS = {"int8_t": (8, True, True), "uint8_t": (8, False, True), "int16_t": (16, True, True), "uint16_t": (16, False, True), "int32_t": (32, True, True),
        "uint32_t": (32, False, True), "int64_t": (64, True, True), "uint64_t": (64, False, True), "float": (24, True, False), "double": (53, True, False)}
NAMES = list(REPS)


def rmax(r):
    b, s, i = REPS[r]
    assert i
    return 2 ** (b - 1) - 1 if s else 2 ** b - 1


def permitted(r1, r2, ratio):
    """ratio = U1/U2 as Fraction, or 'irr' for an irrational ratio.  The documented predicate."""
    i1, i2 = REPS[r1][2], REPS[r2][2]
    if not i2:
        return True
    if ratio == 1 and r1 == r2:
        return True
    if ratio != "irr" and i1 and ratio.denominator == 1:
        k = ratio.numerator
        if rmax(r2) >= 2147 and 2147 * k <= rmax(r2):
            return True
    if ratio == 1 and i1 and i2:
        return True
    return False


def common_rep(r1, r2):
    """usual arithmetic conversions (language rule)"""
    if r1 == r2:
        return r1
    f = [r for r in (r1, r2) if not REPS[r][2]]
    if f:
        return "double" if "double" in f else "float"
    def prom(r):
        b, s, _ = REPS[r]
        return ("int32_t", 32, True) if b < 32 else (r, b, s)
    a, b = prom(r1), prom(r2)
    if a == b:
        return a[0]
    if a[2] == b[2]:
        return a[0] if a[1] >= b[1] else b[0]
    u, s = (a, b) if not a[2] else (b, a)
    return u[0] if u[1] >= s[1] else s[0]


def ratio_grid(tier, rnd):
    ks = set()
    for r in NAMES:
        if REPS[r][2]:
            m = rmax(r)
            t = m // 2147
            for k in (t - 1, t, t + 1, m, m + 1, m - 1):
                if k >= 2:
                    ks.add(k)
    ks |= {2, 3, 10, 60, 1000, 10 ** 6, 10 ** 9, 10 ** 12, 10 ** 15, 10 ** 18, 10 ** 21, 10 ** 30, 2 ** 10, 2 ** 20, 2 ** 31, 2 ** 32, 2 ** 63, 2 ** 64, 2 ** 80, 10 ** 40}
    ks = sorted(ks)
    out = [Fraction(1)]
    out += [Fraction(k) for k in ks]
    out += [Fraction(1, k) for k in (2, 3, 1000, 10 ** 6, 10 ** 18, 2 ** 64, 10 ** 30, 15, 2147)]
    out += [Fraction(3, 2), Fraction(5, 9), Fraction(1250, 381), Fraction(2, 3), Fraction(1000, 3), Fraction(10 ** 20, 7)]
    out += ["irr"]
    if tier == "quick":
        keep = [Fraction(1), "irr", Fraction(3, 2), Fraction(1, 1000), Fraction(10 ** 12), Fraction(10 ** 30), Fraction(2 ** 64), Fraction(1, 10 ** 30),
                Fraction(10 ** 40)]  # 10^40: the factor no float can hold (known finding N9) is observed on every run
        rest = [x for x in out if x not in keep]
        rnd.shuffle(rest)
        out = keep + rest[:24]
    return out


def unit1_expr(ratio):
    if ratio == "irr":
        return "decltype(VfBase{} * au::Magnitude<au::Pi>{} / au::mag<180>())"
    if ratio == 1:
        return "VfBase"  # (a distinct named unit of ratio exactly 1 would fall under the documented ordering limitation)
    return f"decltype(VfBase{{}} * {numth.mag_expr(ratio.numerator)} / {numth.mag_expr(ratio.denominator)})"


PRE = r'''
#include "au/au.hh"
#include <cstdint>
#include <type_traits>
#include <utility>
struct VfBase : au::UnitImpl<au::Length> {};
struct VfBase1 : decltype(VfBase{} * au::mag<1>()) {};
struct VfTime : au::UnitImpl<au::Time> {};
template <typename Q2> struct VfOver { static int f(Q2); static char f(...); };
template <typename A, typename B, typename = void> struct VfHasCommon : std::false_type {};
template <typename A, typename B> struct VfHasCommon<A, B, decltype(void(std::declval<std::common_type_t<A, B>>()))> : std::true_type {};
'''


def tf(b):
    return "true" if b else "false"


def gen_probes(tier):
    rnd = core.rng("c06", tier)
    grid = ratio_grid(tier, rnd)
    probes = []
    pid = 1
    value_cases = []
    seen_as = set()
    for r1 in NAMES:
        for r2 in NAMES:
            for ratio in grid:
                if tier == "quick" and rnd.random() < 0.55 and ratio not in (Fraction(1),):
                    continue
                M = permitted(r1, r2, ratio)
                u1 = unit1_expr(ratio)
                q1, q2 = f"au::Quantity<{u1}, {r1}>", f"au::Quantity<VfBase, {r2}>"
                rs = "irr" if ratio == "irr" else f"{ratio.numerator}/{ratio.denominator}"
                base = {"r1": r1, "r2": r2, "ratio": rs, "model": M}
                forms = [
                    ("is_convertible", f'static_assert(std::is_convertible<{q1}, {q2}>::value == {tf(M)}, "vf");'),
                    ("is_constructible", f'static_assert(std::is_constructible<{q2}, {q1}>::value == {tf(M)}, "vf");'),
                    ("overload", f'static_assert(sizeof(VfOver<{q2}>::f(std::declval<{q1}>())) == sizeof({"int" if M else "char"}), "vf");'),
                    ("common_type", f'static_assert(VfHasCommon<{q1}, {q2}>::value && std::is_same<typename std::common_type_t<{q1}, {q2}>::Rep, std::common_type_t<{r1}, {r2}>>::value, "vf");'),
                ]
                for name, text in forms:
                    probes.append(dict(base, id=pid, form=name, expect="accept", text=text))
                    pid += 1
                # implicit construction as a statement: compiles iff model
                probes.append(dict(base, id=pid, form="copy_init", expect="accept" if M else "reject", dedup_key=(r1, r2, rs), text=f"void vf_p{pid}({q1} a) {{ {q2} b = a; (void)b; }}"))
                pid += 1
                # assignment and compound assignment from the other type go through the same implicit conversion (one statement per
                # probe: a rejected `t = a` must not hide an accepted `t += a`)
                for fname, body in (("assign", "t = a;"), ("plus_assign", "t += a;"), ("minus_assign", "t -= a;")):
                    if tier != "quick" or rnd.random() < 0.35 or ratio == Fraction(1):
                        probes.append(dict(base, id=pid, form=fname, expect="accept" if M else "reject", dedup_key=(r1, r2, rs), text=f"void vf_p{pid}({q2} t, {q1} a) {{ {body} }}"))
                        pid += 1
                # unit-only .as(u) keeps the rep: policy for (r1 -> r1)
                M_as = permitted(r1, r1, ratio)
                if (r1, rs) not in seen_as and not seen_as.add((r1, rs)):
                  probes.append(dict(base, id=pid, form="as_unit_only", model=M_as, expect="accept" if M_as else "reject", text=f"void vf_p{pid}({q1} a) {{ auto b = a.as(VfBase{{}}); auto c = a.in(VfBase{{}}); (void)b; (void)c; }}"))
                pid += 1
                # mixed comparison / addition: each operand must convert to (common unit, common rep)
                if ratio != "irr":
                    c = common_rep(r1, r2)
                    g = Fraction(math.gcd(ratio.numerator, ratio.denominator * 1), ratio.denominator)  # gcd(ratio, 1)
                    k1, k2 = ratio / g, Fraction(1) / g
                    M_mixed = permitted(r1, c, k1) and permitted(r2, c, k2)
                    # when a magnitude is so large that the *common unit's* own factors are involved the statement is the same predicate; keep it
                    # one operator per probe (a refused `a == b` must not hide an accepted `a < b`).  The form names keep the
                    # family prefix mixed_; C++20 adds <=>; % exists for integral reps only
                    ops = [("mixed_eq", "bool r = (a == b); (void)r;", False), ("mixed_ne", "bool r = (a != b); (void)r;", False), ("mixed_lt", "bool r = (a < b); (void)r;", False),
                           ("mixed_le", "bool r = (a <= b); (void)r;", False), ("mixed_gt", "bool r = (a > b); (void)r;", False), ("mixed_ge", "bool r = (a >= b); (void)r;", False),
                           ("mixed_plus", "auto r = a + b; (void)r;", False), ("mixed_minus", "auto r = a - b; (void)r;", False), ("mixed_min", "auto r = min(a, b); (void)r;", False),
                           ("mixed_max", "auto r = max(b, a); (void)r;", False), ("mixed_spaceship", "auto r = (a <=> b); (void)r;", True)]
                    if REPS[r1][2] and REPS[r2][2]:
                        ops.append(("mixed_mod", "auto r = a % b; (void)r;", False))
                    chosen = ops if tier != "quick" else rnd.sample(ops, 4)
                    for fname, body, cpp20 in chosen:
                        probes.append(dict(base, id=pid, form=fname, model=M_mixed, expect="accept" if M_mixed else "reject", dedup_key=(rs, c), cpp20=cpp20,  # (the operators share the conversion whose static_assert fires once per TU)
                                           text=f"void vf_p{pid}({q1} a, {q2} b) {{ {body} }}"))
                        pid += 1
                if M and REPS[r2][2] and REPS[r1][2] and ratio != "irr":
                    value_cases.append({"r1": r1, "r2": r2, "k": ratio.numerator, "u1": u1})
    # dimension mismatch answers 'no' without a hard error (shared with C01)
    for r1 in ("int32_t", "double", "uint8_t"):
        for r2 in ("int32_t", "float", "int64_t"):
            q1, q2 = f"au::Quantity<VfTime, {r1}>", f"au::Quantity<VfBase, {r2}>"
            probes.append({"id": pid, "r1": r1, "r2": r2, "ratio": "dim-mismatch", "model": False, "form": "is_convertible_mismatch", "expect": "accept",
                           "text": f'static_assert(!std::is_convertible<{q1}, {q2}>::value && !std::is_constructible<{q2}, {q1}>::value && !VfHasCommon<{q1}, {q2}>::value, "vf");'})
            pid += 1
    return probes, value_cases


VAL_HARNESS = r'''
#include "au/au.hh"
#include "vf_monitor.hh"
#include <cstdint>
struct VfBase : au::UnitImpl<au::Length> {};
struct VfBase1 : decltype(VfBase{} * au::mag<1>()) {};
typedef __int128 i128;
static unsigned long long g_evals = 0, g_mm = 0; static char g_wit[2048]; static int g_nw = 0;
template <typename U1, typename R1, typename R2>
__attribute__((noinline)) void run_case(long id, unsigned long long k) {
    vf::g_inst = id;
    vf::run_loop(0, 4295, [&](uint64_t i) {
        i128 x = (i128)i - 2147;
        if (x < (i128)std::numeric_limits<R1>::lowest() || x > (i128)std::numeric_limits<R1>::max()) return;
        i128 want = x * (i128)k;
        // "any value of magnitude up to 2147 that R2 can hold"
        if (want < (i128)std::numeric_limits<R2>::lowest() || want > (i128)std::numeric_limits<R2>::max()) return;
        vf::g_aux0 = (uint64_t)(long long)x;
        au::Quantity<U1, R1> q = au::make_quantity<U1>(vf::launder((R1)x));
        R2 got{};
        VF_PHASE(vf::PH_OPERATION) { au::Quantity<VfBase, R2> t = q; got = t.in(VfBase{}); }
        g_evals++;
        if ((i128)got != want) { g_mm++; if (g_nw < 8) { g_nw++; snprintf(g_wit + strlen(g_wit), 200, "%s[%ld,%lld,%lld]", g_wit[0] ? "," : "", id, (long long)x, (long long)got); } }
    });
}
'''


def run_values(cases, tier, chk):
    cases = cases if tier == "thorough" else cases[::3] + cases[1:40]
    d = core.subdir("c06v")
    shards = [cases[i::16] for i in range(16)]
    allc = {}

    def do(job):
        si, sh, fl = job
        L = [VAL_HARNESS, "int main() {", "  vf::install_handlers();"]
        for j, c in enumerate(sh):
            cid = si * 10000 + j
            allc[cid] = c
            L.append(f'  run_case<{c["u1"]}, {c["r1"]}, {c["r2"]}>({cid}, {c["k"]}ull);')
        L += ['  printf("{\\"ev\\":\\"c06v\\",\\"evals\\":%llu,\\"mm\\":%llu,\\"wit\\":[%s]}\\n", g_evals, g_mm, g_wit);', "  vf::print_traps_json();", '  printf("{\\"ev\\":\\"done\\"}\\n");', "}"]
        src = os.path.join(d, f"v{si}_{fl}.cc")
        exe = src[:-3] + ".exe"
        core.write(src, "\n".join(L))
        rc, se = core.build(src, exe, fl)
        if rc != 0:
            raise core.Inconclusive(f"C06 value harness shard {si} does not compile: {se[:400]}")
        rc, so, se = core.sh([exe], timeout=900)
        if rc != 0 or '"ev":"done"' not in so:
            raise core.Inconclusive(f"C06 value run failed: {se[-300:]}")
        return fl, [json.loads(l) for l in so.splitlines() if l.startswith("{")]

    jobs = [(si, sh, fl) for si, sh in enumerate(shards) if sh for fl in ("G_trap", "L_trap")]
    evals = 0
    for fl, events in core.pmap(do, jobs):
        for ev in events:
            if ev["ev"] == "c06v":
                evals += ev["evals"]
                for cid, x, got in ev["wit"]:
                    c = allc[cid]
                    chk.violation(f'C06|value|{c["r1"]}->{c["r2"]}|k={c["k"]}|x={x}', msg=f'{fl}: permitted implicit conversion {c["r1"]} -> {c["r2"]} x{c["k"]} of {x} gave {got}')
            elif ev["ev"] == "traps":
                for r in ev["recs"]:
                    c = allc.get(r["inst"])
                    if r["phase"] == "OPERATION" and c:
                        x = r["aux0"] - 2 ** 64 if r["aux0"] >= 2 ** 63 else r["aux0"]
                        chk.violation(f'C06|trap|{c["r1"]}->{c["r2"]}|k={c["k"]}|x={x}', msg=f'{fl}: sanitizer trap in a permitted implicit conversion {c["r1"]} -> {c["r2"]} x{c["k"]} of {x}')
    return evals, len(cases)


FMAX = {"float": Fraction(2 ** 24 - 1, 2 ** 24) * 2 ** 128, "double": Fraction(2 ** 53 - 1, 2 ** 53) * 2 ** 1024}


def unrepresentable_float_factor(p):
    """-> name of the floating rep that would have to hold a conversion factor beyond its largest finite value, or None"""
    if p["ratio"] in ("irr", "dim-mismatch"):
        return None
    n, d = p["ratio"].split("/")
    ratio = Fraction(int(n), int(d))
    if p["form"] == "as_unit_only":
        reps, ks = [p["r1"]], [ratio]
    elif p["form"].startswith("mixed_"):
        c = common_rep(p["r1"], p["r2"])
        g = Fraction(math.gcd(ratio.numerator, ratio.denominator), ratio.denominator)
        reps, ks = [c, c], [ratio / g, Fraction(1) / g]
    else:
        reps, ks = [p["r2"]], [ratio]
    for rep, k in zip(reps, ks):
        if rep in FMAX and (k > FMAX[rep] or (k != 0 and 1 / k > FMAX[rep])):
            return rep
    return None


def run(chk, which="C06"):
    tier = chk.tier
    probes, value_cases = gen_probes(tier)
    cfgs = [(core.GXX, "c++14"), (core.CLANGXX, "c++17"), (core.GXX, "c++20")] if tier == "quick" else core.CONFIGS
    by = {p["id"]: p for p in probes}

    groups = {"traits": [p for p in probes if p["form"] not in ("as_unit_only", "copy_init", "assign", "plus_assign", "minus_assign") and not p["form"].startswith("mixed_")],
              "copy": [p for p in probes if p["form"] in ("copy_init", "assign", "plus_assign", "minus_assign")],
              "as": [p for p in probes if p["form"] == "as_unit_only"],
              "mixed": [p for p in probes if p["form"].startswith("mixed_")]}

    def do_cfg(job):
        cfg, gname = job
        pr = ccmon.ProbeRun(PRE, cfg[0], cfg[1], batch=140)
        sel = [p for p in groups[gname] if not p.get("cpp20") or cfg[1] == "c++20"]
        if cfg[1] == "c++20" and tier == "quick" and gname != "mixed":
            sel = sel[::4]  # the third quick configuration is there for the C++20-only forms; a slice of the rest suffices
        return cfg, pr.run(sel, tag="c06" + gname), pr

    results = core.pmap(do_cfg, [(c, g) for c in cfgs for g in groups], workers=4)
    nprobe = 0
    distinct = set()
    nine_forms = set()
    for cfg, res, pr in results:
        cs = f"{cfg[0]}:{cfg[1]}"
        for pid, r in res.items():
            p = by[pid]
            nprobe += 1
            if r.get("unverified"):
                continue
            distinct.add((p["r1"], p["r2"], p["ratio"], p["form"]))
            tag = f'{p["form"]}|{p["r1"]}->{p["r2"]}|ratio={p["ratio"]}'
            if p["expect"] == "accept" and r["rejected"]:
                msg = (r["msgs"] or ["?"])[0]
                # One defect, many spellings: when the rep that has to hold the conversion factor is floating and the factor exceeds
                # its largest finite value, the policy (rightly, per the statement) says "permitted" but the conversion itself cannot
                # compile; g++ even reports it while resolving overloads in an unevaluated operand.  The key names the rep that must
                # hold the factor and the factor - not the form (every spelling of the conversion fails alike), the other rep or the configuration.
                frep = unrepresentable_float_factor(p)
                if frep and p["form"] != "is_convertible" and p["form"] != "is_constructible" and p["form"] != "common_type":
                    nine_forms.add(p["form"])
                    chk.violation(f'C06|unrepresentable_float_factor|rep={frep}|ratio={p["ratio"]}',
                                  msg=f'{cs}: {p["form"]} for Quantity<U*{p["ratio"]},{p["r1"]}> -> Quantity<U,{p["r2"]}>: the policy permits it (floating rep) but the conversion factor is not representable in {frep}, so the program is ill-formed: {msg[:160]}')
                    continue
                wrong_answer = "static assertion failed" in msg and "vf" in msg or "static_assert failed" in msg and "vf" in msg
                what = "answers differently from the documented predicate" if wrong_answer else "is not total: asking is a hard error"
                if p["form"] in ("copy_init", "as_unit_only", "assign", "plus_assign", "minus_assign") or p["form"].startswith("mixed_"):
                    what = "is rejected although the documented predicate permits it"
                chk.violation(f"C06|{tag}|cfg={cs}", msg=f'{cs}: {p["form"]} for Quantity<U*{p["ratio"]},{p["r1"]}> -> Quantity<U,{p["r2"]}> (model: {p["model"]}) {what}: {msg[:220]}')
            elif p["expect"] == "reject" and not r["rejected"]:
                chk.violation(f"C06|{tag}|cfg={cs}", msg=f'{cs}: {p["form"]} for Quantity<U*{p["ratio"]},{p["r1"]}> -> Quantity<U,{p["r2"]}> compiles although the documented predicate forbids it')
            if len(chk.cov["samples"]) < 6 and p["form"] == "overload" and p["ratio"] not in ("1/1", "irr") and pid % 17 == 0:
                chk.sample({"probe": p["text"], "model_permits": p["model"], "config": cs, "rejected": r["rejected"]})
    evals, ncases = run_values(value_cases, tier, chk)
    chk.add_evals(nprobe + evals, len(distinct))
    chk.cov["rule"] = ("(R1, R2) over the 10 standard arithmetic reps squared x unit ratios k, 1/k, p/q, irrational, straddling every rep's 2147-threshold and maximum and including magnitudes no type can hold; "
                       "per case: is_convertible / is_constructible / overload-resolution / common_type as static_assert(trait == model) lines (a wrong answer and a hard error are both attributed), "
                       "copy-initialisation, unit-only .as/.in and mixed ==,<,+ as accept/reject probes; every permitted integral conversion is executed on all x in [-2147,2147] that R1 and R2 can hold; "
                       "distinct_nontrivial = distinct (R1, R2, ratio, form)")
    chk.notes.update({"probes": nprobe, "configurations": [f"{c} {s}" for c, s in cfgs], "value_cases": ncases, "value_evaluations": evals,
                      "isolated_rechecks": sum(pr.n_isolated for _, _, pr in results), "forms_hit_by_unrepresentable_float_factor": sorted(nine_forms),
                      "unverified_batch_verdicts": sum(pr.n_unverified for _, _, pr in results)})
    if sum(pr.n_unverified for _, _, pr in results):
        chk.fail_inconclusive("more disagreements than could be re-checked in isolation")
    chk.assumptions += ["totality is observed on the compiler's run over generated TUs (Plane C); each disagreement is re-compiled in isolation before it counts"]
    return chk
