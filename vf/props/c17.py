"""C17: std::chrono durations round-trip through quantities unchanged (Plane A + reified facts)."""
import json
import math
import os
from fractions import Fraction

from .. import ccmon, core, model

REPS = ["int32_t", "int64_t", "float", "double"]
PERIODS = [("nano", 1, 10 ** 9), ("micro", 1, 10 ** 6), ("milli", 1, 1000), ("one", 1, 1), ("min", 60, 1), ("hour", 3600, 1), ("day", 86400, 1), ("sixtieth", 1, 60),
           ("ntsc", 1001, 30000), ("prime", 1, 1000000007), ("unreduced", 2, 4), ("exa", 10 ** 18, 1), ("week", 604800, 1), ("r7_3", 7, 3)]
NAMED = ["std::chrono::nanoseconds", "std::chrono::microseconds", "std::chrono::milliseconds", "std::chrono::seconds", "std::chrono::minutes", "std::chrono::hours"]
NAMED_PERIOD = {"std::chrono::nanoseconds": (1, 10 ** 9), "std::chrono::microseconds": (1, 10 ** 6), "std::chrono::milliseconds": (1, 1000), "std::chrono::seconds": (1, 1),
                "std::chrono::minutes": (60, 1), "std::chrono::hours": (3600, 1)}
# C++20 calendar typedefs (their own names could be given a specialised mapping, like the six above)
NAMED20 = {"std::chrono::days": (86400, 1), "std::chrono::weeks": (604800, 1), "std::chrono::months": (2629746, 1), "std::chrono::years": (31556952, 1)}
TARGETS = [("QuantityD<Seconds>", "au::QuantityD<au::Seconds>"), ("QuantityI<Milli<Seconds>>", "au::Quantity<au::Milli<au::Seconds>, int>"), ("Quantity<Hours,int>", "au::Quantity<au::Hours, int>"),
           ("QuantityI64<Nano<Seconds>>", "au::Quantity<au::Nano<au::Seconds>, int64_t>"), ("QuantityF<Minutes>", "au::Quantity<au::Minutes, float>"), ("QuantityD<Meters>", "au::QuantityD<au::Meters>"),
           ("Quantity<Seconds,int8_t>", "au::Quantity<au::Seconds, int8_t>"), ("QuantityF<Milli<Seconds>>", "au::Quantity<au::Milli<au::Seconds>, float>"),
           ("Quantity<Micro<Seconds>,double>", "au::Quantity<au::Micro<au::Seconds>, double>")]


def dtype(rep, num, den):
    return f"std::chrono::duration<{rep}, std::ratio<{num}, {den}>>"


def plan(tier):
    rnd = core.rng("c17", tier)
    durs = []
    for rep in REPS:
        for name, n, d in PERIODS:
            durs.append({"desc": f"duration<{rep},{n}/{d}>", "type": dtype(rep, n, d), "rep": rep, "num": n, "den": d})
    # the remaining integral widths / spellings and long double, on a few periods (as_quantity(d) must keep exactly d's rep)
    for rep in ("uint64_t", "long long", "unsigned long long", "uint32_t", "int16_t", "uint8_t", "long double", "long", "unsigned long"):
        for name, n, d in (("milli", 1, 1000), ("one", 1, 1), ("min", 60, 1)):
            durs.append({"desc": f"duration<{rep},{n}/{d}>", "type": dtype(rep, n, d), "rep": rep, "num": n, "den": d})
    for t in NAMED:
        n, d = NAMED_PERIOD[t]
        durs.append({"desc": t.split("::")[-1], "type": t, "rep": "int64_t", "num": n, "den": d})
    for t, (n, d) in NAMED20.items():
        durs.append({"desc": t.split("::")[-1], "type": t, "rep": "int64_t", "num": n, "den": d, "cpp20": True})
    for i, d in enumerate(durs):
        d["id"] = i + 1
    pairs = []
    allp = [(a, b) for a in durs for b in durs if not a.get("cpp20") and not b.get("cpp20")]
    rnd.shuffle(allp)
    # the C++20 typedefs against a few ordinary durations, both ways round (run in the C++20 configurations only)
    c20 = [d for d in durs if d.get("cpp20")]
    others = [d for d in durs if not d.get("cpp20") and d["den"] in (1, 1000) and d["num"] in (1, 60, 3600, 86400, 604800)]
    extra20 = []
    for a in c20:
        for b in rnd.sample(others, 3 if tier == "quick" else 8) + [rnd.choice(c20)]:
            extra20.append((a, b) if rnd.random() < 0.5 else (b, a))
    npairs = 160 if tier == "quick" else 1000
    pid = 1000
    for a, b in allp:
        if len(pairs) >= npairs:
            break
        # integral mixes need the policy to admit both conversions to the common unit: keep factors modest, let the compiler have the last word
        pairs.append({"id": pid, "a": a, "b": b, "desc": f'{a["desc"]} vs {b["desc"]}'})
        pid += 1
    for a, b in extra20:
        pairs.append({"id": pid, "a": a, "b": b, "desc": f'{a["desc"]} vs {b["desc"]}', "cpp20": True})
        pid += 1
    return durs, pairs


def emit_tu(durs, pairs):
    L = ['#include "vf_chrono.hh"', '#include "au/units/meters.hh"', "#include <cstdint>", "int main(int argc, char **argv) {",
         "  unsigned long long nrandom = argc > 1 ? strtoull(argv[1], 0, 10) : 100, seed = argc > 2 ? strtoull(argv[2], 0, 10) : 1;", "  vf::install_handlers();"]
    for d in durs:
        L.append(f'#line {d["id"] * 10} "vfprobe"')
        acc = " ".join(f'vfc17::accept_fact<D, {t}>({d["id"]}, "{d["desc"]}", "{n}");' for n, t in TARGETS)
        L.append(f'  {{ using D = {d["type"]}; vfc17::run_roundtrip<D>({d["id"]}, "{d["desc"]}", nrandom, seed ^ {d["id"]}ull); {acc} }}')
    for p in pairs:
        L.append(f'#line {p["id"] * 10} "vfprobe"')
        L.append(f'  {{ vfc17::run_mixed<{p["a"]["type"]}, {p["b"]["type"]}>({p["id"]}, "{p["desc"]}", nrandom, seed ^ {p["id"]}ull); }}')
    L.append('#line 1 "vftail"')
    L += ["  vf::print_traps_json(); vf::print_diag_json();", '  printf("{\\"ev\\":\\"done\\"}\\n");', "  return 0;", "}"]
    return "\n".join(L) + "\n"


def build_and_run(si, durs, pairs, flavour, std, nrandom, dropped):
    d = core.subdir(f"c17_{flavour}_{std.replace('+', 'p')}")
    src = os.path.join(d, f"s{si}.cc")
    exe = os.path.join(d, f"s{si}.exe")
    if std != "c++20":
        durs, pairs = [x for x in durs if not x.get("cpp20")], [x for x in pairs if not x.get("cpp20")]
    durs, pairs = list(durs), list(pairs)
    for attempt in range(12):
        core.write(src, emit_tu(durs, pairs))
        rc, se = core.build(src, exe, flavour, std=std)
        if rc == 0:
            break
        by, loose = ccmon.attribute(se)
        bad = {k // 10 for k in by}
        if not bad:
            raise core.Inconclusive(f"c17 shard {si} ({flavour}) failed to compile: {se[:400]}")
        for x in durs + pairs:
            if x["id"] in bad:
                dropped.append({"id": x["id"], "desc": x["desc"], "err": [v for k, v in by.items() if k // 10 == x["id"]][0][0][:160]})
        durs = [x for x in durs if x["id"] not in bad]
        pairs = [x for x in pairs if x["id"] not in bad]
    else:
        raise core.Inconclusive(f"c17 shard {si} still fails to compile")
    rc, so, se = core.sh([exe, str(nrandom), str(core.sub_seed("c17", si) % 2 ** 62)], timeout=1800)
    os.unlink(exe)
    if rc != 0 or '"ev":"done"' not in so:
        raise core.Inconclusive(f"c17 shard {si} ({flavour}) run failed rc={rc}: {se[-300:]}")
    return [json.loads(l) for l in so.splitlines() if l.startswith("{")]


def run(chk, which="C17"):
    tier = chk.tier
    durs, pairs = plan(tier)
    by_id = {x["id"]: x for x in durs + pairs}
    nsh = 16
    shards = [(durs[k::nsh], pairs[k::nsh]) for k in range(nsh)]
    cfgs = [("G_trap", "c++14"), ("L_trap", "c++17")] if tier == "quick" else [("G_trap", "c++14"), ("L_trap", "c++17"), ("G_plain", "c++20"), ("Lub_trap", "c++20")]
    nrandom = 120 if tier == "quick" else 2000
    dropped = []
    jobs = [(si, a, b, fl, std) for fl, std in cfgs for si, (a, b) in enumerate(shards)]
    if tier == "quick":  # the C++20-only duration types get one small C++20 build of their own
        jobs.append((nsh, [x for x in durs if x.get("cpp20")], [x for x in pairs if x.get("cpp20")], "G_trap", "c++20"))
    results = core.pmap(lambda j: (j[3], j[4], build_and_run(j[0], j[1], j[2], j[3], j[4], nrandom, dropped)), jobs)
    bad_ids = {d["id"] for d in dropped}
    core.reach(chk, emit_tu([x for x in durs if not x.get("cpp20")][::4], [x for x in pairs if x["id"] not in bad_ids and not x.get("cpp20")][::6][:16]), [[30, 1]])
    evals = 0
    distinct = set()
    secs = None
    for fl, std, events in results:
        for ev in events:
            if ev["ev"] == "dfacts":
                d = by_id[ev["id"]]
                distinct.add(("facts", ev["id"]))
                fr = Fraction(d["num"], d["den"])
                want_mag = model.mag_of_fraction(fr)
                got_mag = model.parse_mag_event(ev["mag"])
                dims = model.parse_dim_event(ev["dim"])
                bad = []
                if not ev["rep_same"]:
                    bad.append("as_quantity changes the rep")
                if not ev["back_rep_same"]:
                    bad.append("as_chrono_duration changes the rep")
                if not ev["back_period_is_reduced"]:
                    bad.append("as_chrono_duration gives a different (reduced) Period")
                if model.ekey(got_mag) != model.ekey(want_mag):
                    bad.append(f"unit magnitude {model.ekey(got_mag)} != seconds x {fr}")
                if len(dims) != 1 or list(dims.values())[0] != 1:
                    bad.append(f"unit dimension {model.ekey(dims)} is not time")
                if (ev["num"], ev["den"]) != (fr.numerator, fr.denominator):
                    bad.append("reduced period mismatch")
                for b in bad:
                    chk.violation(f'C17|facts|{d["desc"]}|{b[:60]}', msg=f'{fl} {std}: {d["desc"]}: {b}')
                evals += 1
            elif ev["ev"] in ("droundtrip", "dmixed"):
                evals += ev["evals"]
                distinct.add((ev["ev"], ev["id"]))
                for w in ev["wit"]:
                    chk.violation(f'C17|{w["what"]}|{ev["desc"]}|x={w["a"]},{w["b"]}', msg=f'{fl} {std}: {ev["desc"]}: `{w["what"]}` with counts {w["a"]}, {w["b"]} disagrees with {"the duration itself" if ev["ev"] == "droundtrip" else "chrono own result"}')
                if len(chk.cov["samples"]) < 8 and ev["ev"] == "dmixed" and ev["evals"]:
                    chk.sample({"pair": ev["desc"], "config": f"{fl} {std}", "evaluations": ev["evals"], "skipped_because_chrono_overflows": ev["skipped_overflow"]})
            elif ev["ev"] == "dacceptval":
                evals += ev["evals"]
                if ev["mm"]:
                    chk.violation(f'C17|accepted_value|{ev["desc"]}|target={ev["target"]}', msg=f'{fl} {std}: {ev["desc"]} -> {ev["target"]}: the implicitly converted duration differs (bitwise) from the converted corresponding quantity for {ev["mm"]} of {ev["evals"]} counts, first count {ev["count"]}')
            elif ev["ev"] == "daccept":
                evals += 1
                if ev["duration_convertible"] != ev["quantity_convertible"]:
                    chk.violation(f'C17|acceptance|{ev["desc"]}|target={ev["target"]}', msg=f'{fl} {std}: {ev["desc"]} -> {ev["target"]}: duration implicitly accepted = {ev["duration_convertible"]}, corresponding quantity accepted = {ev["quantity_convertible"]}')
            elif ev["ev"] == "traps":
                for r in ev["recs"]:
                    x = by_id.get(r["inst"])
                    if r["phase"] == "OPERATION" and x:
                        if fl == "L_trap":
                            chk.lead(f'Ltrap|{x["desc"]}', a=r["aux0"], b=r["aux1"], note="clang build also traps on non-UB integer checks")
                        else:
                            chk.violation(f'C17|trap|{x["desc"]}|x={r["aux0"]},{r["aux1"]}', msg=f'{fl} {std}: UB trapped in a duration/quantity operation although chrono own computation is defined ({x["desc"]}, bits {r["aux0"]:#x} {r["aux1"]:#x})')
                    elif r["phase"] != "OPERATION":
                        chk.fail_inconclusive(f"trap in harness phase {r['phase']} ({fl})")
    chk.add_evals(evals, len(distinct))
    chk.cov["rule"] = ("duration types: Rep in {int32,int64,float,double} x 14 periods (nano..week, 1/60, 1001/30000, 1/1000000007, non-reduced 2/4, 10^18) + the six named chrono typedefs (specialised mapping) + under C++20 days/weeks/months/years; "
                       "per type: static facts (rep, unit = seconds x Period via the reifier, reduced period of as_chrono_duration) and count-preserving round trips on boundary/random counts; "
                       "sampled ordered pairs: the six comparisons both ways, +, - against chrono's own result on operand pairs where chrono's computation cannot overflow (128-bit oracle); "
                       "implicit acceptance compared with the corresponding quantity for 9 target quantity types (and, where accepted, the converted value equals the converted corresponding quantity bitwise); distinct_nontrivial = distinct (kind, instance)")
    # every duration type must round-trip: as_quantity(d), the conversion back and the acceptance traits have to compile for each of
    # them (only the *mixed pairs* are subject to the implicit-conversion policy and may legitimately be refused)
    seen_rej = set()
    for x in dropped:
        if x["id"] < 1000 and x["id"] not in seen_rej:
            seen_rej.add(x["id"])
            chk.violation(f'C17|roundtrip_rejected|{x["desc"]}', msg=f'as_quantity / conversion back / acceptance traits for {x["desc"]} do not compile: {x["err"]}')
    chk.notes.update({"duration_types": len(durs), "pairs": len(pairs), "rejected_by_library": dropped[:30], "n_rejected": len(dropped)})
    if len([x for x in dropped if x["id"] >= 1000]) > len(pairs) * len(cfgs) * 0.5:
        chk.fail_inconclusive(f"{len(dropped)} instances rejected by the library")
    return chk
