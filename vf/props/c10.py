"""C10: the common point unit keeps every input integral and non-negative (Plane B + run-time conversions)."""
import itertools
from fractions import Fraction

from .. import core, model, planeb

LIB_POINT = [  # (type expr, scale in K, origin in K)
    ("au::Kelvins", Fraction(1), Fraction(0)), ("au::Celsius", Fraction(1), Fraction(27315, 100)), ("au::Fahrenheit", Fraction(5, 9), Fraction(27315, 100) - Fraction(32 * 5, 9)),
    ("au::Milli<au::Kelvins>", Fraction(1, 1000), Fraction(0)), ("au::Centi<au::Celsius>", Fraction(1, 100), Fraction(27315, 100)), ("au::Kilo<au::Kelvins>", Fraction(1000), Fraction(0)),
    ("au::Milli<au::Celsius>", Fraction(1, 1000), Fraction(27315, 100)), ("au::Deci<au::Fahrenheit>", Fraction(5, 90), Fraction(27315, 100) - Fraction(32 * 5, 9)),
]


def gen_unit(rnd, decls, origin=None, small_scale=False):
    a, b = (rnd.randint(1, 12), rnd.randint(1, 12)) if small_scale else (rnd.randint(1, 1000), rnd.randint(1, 1000))
    c = rnd.choice([1, 1, 2, 3, 4, 5, 9, 10, 100, 1000, 7])
    d = rnd.choice([0, 0, 1, -1, 5, -40, 273, 27315, -45967, 12, 1000, -1000, 32])
    if origin is not None:
        c, d = origin
    name = f"VfP{len(decls)}"
    decls.append(f"struct {name} : decltype(au::Kelvins{{}} * au::mag<{a}>() / au::mag<{b}>()) {{ static constexpr auto origin() {{ return (au::kelvins / au::mag<{c}>())({d}LL); }} }};")
    return (name, Fraction(a, b), Fraction(d, c))


def run(chk, which="C10"):
    tier = chk.tier
    units = {u.type: u for u in model.scan_units() if u.type in ("Kelvins", "Celsius", "Fahrenheit")}
    n_tu = 16 if tier == "quick" else 64
    per_tu = 30 if tier == "quick" else 80
    plans = []
    for ti in range(n_tu):
        rnd = core.rng("c10", tier, ti)
        decls = []
        stmts, entries, lists = [], {}, []
        sid = 1
        while len(lists) < per_tu:
            if rnd.random() < 0.3:
                # structured: several inputs share the lowest origin (their displacement from the common origin is ZERO) and
                # one or two sit higher by an amount whose denominator is foreign to every scale (the granularity of that
                # displacement must still reach the common unit, whatever the position of the zero displacements in the list)
                c0, d0 = rnd.choice([(1, 0), (1, 0), (100, 27315), (3, 7), (1, -40), (10, -5)])
                L = []
                for _ in range(rnd.choice([2, 2, 3])):
                    r = rnd.random()
                    if (c0, d0) == (1, 0) and r < 0.5:
                        u = rnd.choice([x for x in LIB_POINT if x[2] == 0])
                    elif (c0, d0) == (100, 27315) and r < 0.5:
                        u = rnd.choice([x for x in LIB_POINT if x[2] == Fraction(27315, 100) and "Celsius" in x[0]])
                    else:
                        u = gen_unit(rnd, decls, origin=(c0, d0), small_scale=rnd.random() < 0.7)
                    if u[0] not in [x[0] for x in L] and (u[1], u[2]) not in [(x[1], x[2]) for x in L]:
                        L.append(u)
                for _ in range(rnd.choice([1, 1, 2])):
                    q = rnd.choice([7, 11, 13, 17, 1000, 2000, 64, 9])
                    delta = Fraction(rnd.randint(1, 5 * q), q)
                    o = Fraction(d0, c0) + delta
                    u = gen_unit(rnd, decls, origin=(o.denominator, o.numerator), small_scale=rnd.random() < 0.7)
                    if (u[1], u[2]) not in [(x[1], x[2]) for x in L]:
                        L.append(u)
                if len(L) >= 3:
                    rnd.shuffle(L)
                    lists.append(L[:4])
                continue
            n = rnd.choice([2, 2, 3])
            L = []
            seen = set()
            while len(L) < n:
                u = rnd.choice(LIB_POINT) if rnd.random() < 0.45 else gen_unit(rnd, decls)
                if (u[1], u[2]) in seen or u[0] in [x[0] for x in L]:
                    continue
                seen.add((u[1], u[2]))
                L.append(u)
            lists.append(L)
        if ti == 0:
            # one fixed list of two units whose authors wrote the origin in an unsigned rep (known finding N12: the library forms origin
            # differences in the origins' common type, which wraps when that type is unsigned and the difference is negative)
            decls.append("struct VfUa : au::Kelvins { static constexpr auto origin() { return au::kelvins(39u); } };")
            decls.append("struct VfUb : decltype(au::Kelvins{} / au::mag<2>()) { static constexpr auto origin() { return (au::kelvins / au::mag<20>())(5463u); } };")
            lists.append([("VfUa", Fraction(1), Fraction(39)), ("VfUb", Fraction(1, 2), Fraction(5463, 20))])
        for li, L in enumerate(lists):
            common = f'au::CommonPointUnitT<{", ".join(x[0] for x in L)}>'
            perms = list(itertools.permutations(range(len(L)))) + [tuple(list(range(len(L))) + [0])]
            for pi_, perm in enumerate(perms):
                tag = f"p{ti}_{li}_p{pi_}"
                entries[tag] = {"li": li, "kind": "perm"}
                stmts.append((sid, f'vfy::reify_unit<au::CommonPointUnitT<{", ".join(L[i][0] for i in perm)}>>("{tag}");'))
                sid += 1
            for i, x in enumerate(L):
                tag = f"p{ti}_{li}_m{i}"
                entries[tag] = {"li": li, "kind": "map", "i": i}
                stmts.append((sid, f'vfy::reify_point_map<{x[0]}, {common}>("{tag}");'))
                sid += 1
        plans.append((ti, stmts, entries, "\n".join(decls), lists))
    inc = '#include "au/units/kelvins.hh"\n#include "au/units/celsius.hh"\n#include "au/units/fahrenheit.hh"'
    results = core.pmap(lambda p: planeb.build_run(f"c10_{p[0]}", p[1], units, "G_O0", "c++14", decls=p[3], extra_includes=inc), plans)
    alt_jobs = [(p, "L_O0", "c++17") for p in plans[: (2 if tier == "quick" else 6)]]
    alt_results = core.pmap(lambda j: planeb.build_run(f"c10alt_{j[0][0]}", j[0][1], units, j[1], j[2], decls=j[0][3], extra_includes=inc), alt_jobs)
    n_ev = nlists = judged = rejected_lists = 0
    for (ti, stmts, entries, decls, lists), (events, rejected, md5, err) in zip(plans, results):
        if err:
            chk.fail_inconclusive(f"C10 TU {ti} failed: {err}")
            continue
        by_sid = {s[0]: s[1] for s in stmts}
        rej_lists = set()
        tag_of_sid = {}
        for tag, en in entries.items():
            pass
        for sid, msgs in rejected.items():
            # acceptance pre-pass: a list the library's own safety surface refuses is counted, not judged
            code = by_sid[sid]
            t = code.split('("')[1].split('"')[0]
            rej_lists.add(entries[t]["li"])
        rejected_lists += len(rej_lists)
        per_list = {}
        for ev in events:
            if ev.get("tag") in entries:
                per_list.setdefault(entries[ev["tag"]]["li"], []).append((entries[ev["tag"]], ev))
        for li, evs in per_list.items():
            nlists += 1
            if li in rej_lists:
                continue
            L = lists[li]
            desc = " , ".join(f"{x[0]}[scale {x[1]} K, origin {x[2]} K]" for x in L)[:300]
            tids = set()
            cmag = None
            for en, ev in evs:
                n_ev += 1
                if en["kind"] == "perm":
                    tids.add(ev["tid"])
                    cmag = model.parse_mag_event(ev["mag"])
            if len(tids) > 1:
                chk.violation(f"C10|order_dependent|list={desc}", msg=f"CommonPointUnitT has {len(tids)} different types over the orderings of [{desc}]")
            if cmag is None or not model.mag_is_rational(cmag):
                continue
            s_c = model.mag_to_fraction(cmag)
            judged += 1
            o_c = None
            for en, ev in evs:
                if en["kind"] != "map":
                    continue
                name, s_i, o_i = L[en["i"]]
                m, b = ev["y1"] - ev["y0"], ev["y0"]
                if ev["y7"] != 7 * m + b:
                    chk.violation(f"C10|not_affine|list={desc}|i={en['i']}", msg=f"converting {name} points to the common point unit is not affine/integral: x=0,1,7 -> {ev['y0']},{ev['y1']},{ev['y7']} for [{desc}]")
                    continue
                if m <= 0:
                    chk.violation(f"C10|scale_not_positive_integer|list={desc}|i={en['i']}", msg=f"{name} -> common: multiplier {m} is not a positive integer for [{desc}]")
                if b < 0:
                    chk.violation(f"C10|offset_negative|list={desc}|i={en['i']}", msg=f"{name} -> common: offset {b} is negative for [{desc}]")
                if Fraction(m) != s_i / s_c:
                    chk.violation(f"C10|scale_mismatch|list={desc}|i={en['i']}", msg=f"{name} -> common: multiplier {m} but exact scale ratio is {s_i / s_c} (the conversion truncated) for [{desc}]")
                oc_i = o_i - b * s_c
                if o_c is None:
                    o_c = oc_i
                elif oc_i != o_c:
                    chk.violation(f"C10|origin_inconsistent|list={desc}|i={en['i']}", msg=f"offsets imply different origins for the common unit ({o_c} K vs {oc_i} K): some offset is not the exact (origin difference)/scale for [{desc}]")
                if m == 1 and b == 0 and ev["in_tid"] not in tids and Fraction(m) == s_i / s_c:
                    chk.violation(f"C10|input_not_reused|list={desc}|i={en['i']}", msg=f"{name} already has the common unit's scale and origin but the result is a different type for [{desc}]")
            if len(chk.cov["samples"]) < 6:
                chk.sample({"inputs": desc, "common_scale_K": str(s_c), "common_origin_K": str(o_c), "maps": [(ev["y0"], ev["y1"], ev["y7"]) for en, ev in evs if en["kind"] == "map"]})
    md5_main = {p[0]: r[2] for p, r in zip(plans, results)}
    for (p, fl, std), (events, rejected, md5, err) in zip(alt_jobs, alt_results):
        if err:
            chk.fail_inconclusive(f"alt config failed: {err}")
        elif md5 != md5_main[p[0]]:
            chk.violation(f"C10|config_diff|{fl}|{std}|tu={p[0]}", msg=f"common-point-unit trace of TU {p[0]} differs between g++ c++14 and {fl} {std}")
    if nlists and rejected_lists > nlists / 3:
        chk.fail_inconclusive(f"{rejected_lists} of {nlists} candidate lists were rejected by the library")
    chk.add_evals(n_ev, judged)
    chk.cov["rule"] = ("pairs and triples of point units: Kelvins/Celsius/Fahrenheit and prefixed forms + generated units with rational scale (num, den <= 1000) and rational origin (positive, zero, negative); "
                       "all orderings + one repetition are reified; each input is converted at run time for x in {0, 1, 7}; the multiplier and offset are recovered and compared with the exact affine map "
                       "between the input and the reified common unit; distinct_nontrivial = lists fully judged")
    chk.notes.update({"lists": nlists, "rejected_by_library": rejected_lists, "judged": judged})
    chk.assumptions += ["maximality of the common point unit is deliberately not demanded (the statement promises integrality, non-negativity, symmetry and input reuse only)"]
    return chk
