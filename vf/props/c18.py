"""C18: printed labels denote the actual unit (Plane B under ASan + semantic label parser)."""
import json
import os
from fractions import Fraction

from .. import core, model, planeb

UNL = "[UNLABELED UNIT]"
UNLSF = "(UNLABELED SCALE FACTOR)"


def unescape(s):
    return s.encode().decode("unicode_escape") if "\\" in s else s


# ---- label parser: returns every (end, dim, mag) reading of text[i:], mag None = unknown ------------
class LabelParser:
    def __init__(self, text, atoms, prefixes):
        """atoms: dict label-string -> list of (dim, mag); prefixes: dict symbol -> mag (those present in the tree)"""
        self.t = text
        self.atoms = atoms
        self.prefixes = prefixes
        self.memo = {}

    def uint(self, i):
        j = i
        while j < len(self.t) and self.t[j].isdigit():
            j += 1
        if j == i or (self.t[i] == "0" and j - i > 1):
            return None
        return j, int(self.t[i:j])

    def sint(self, i):
        neg = self.t.startswith("-", i)
        r = self.uint(i + 1 if neg else i)
        if not r:
            return None
        return r[0], -r[1] if neg else r[1]

    def mag_label(self, i):
        """-> list of (end, mag|None)"""
        out = []
        if self.t.startswith(UNLSF, i):
            out.append((i + len(UNLSF), None))
        r = self.uint(i)
        if r:
            out.append((r[0], model.mag_of_int(r[1])))
        if self.t.startswith("(", i) and not self.t.startswith(UNLSF, i):
            def part(pos):
                if self.t.startswith(UNLSF, pos):
                    return pos + len(UNLSF), None
                r_ = self.uint(pos)
                return (r_[0], model.mag_of_int(r_[1])) if r_ else None
            r = part(i + 1)
            if r and self.t.startswith(" / ", r[0]):
                r2 = part(r[0] + 3)
                if r2 and self.t.startswith(")", r2[0]):
                    out.append((r2[0] + 1, None if (r[1] is None or r2[1] is None) else model.emul(r[1], model.einv(r2[1]))))
        return out

    def atom(self, i):
        key = ("a", i)
        if key in self.memo:
            return self.memo[key]
        out = []
        t = self.t
        if t.startswith(UNL, i):
            out.append((i + len(UNL), None, None))
        if t.startswith("[", i):
            for j, m in self.mag_label(i + 1):
                if t.startswith(" ", j):
                    # the unitless unit (empty product) has the empty label, so "[M ]" is a scaled unitless unit
                    for k, d2, m2 in self.label(j + 1) + ([(j + 1, {}, {})] if t.startswith("]", j + 1) else []):
                        if t.startswith("]", k):
                            out.append((k + 1, d2, None if (m is None or m2 is None) else model.emul(m, m2)))
        if t.startswith("EQUIV{", i):
            # every member must denote the same unit
            def members(pos, acc):
                res = []
                for k, d2, m2 in self.label(pos):
                    if t.startswith(", ", k):
                        res += members(k + 2, acc + [(d2, m2)])
                    elif t.startswith("}", k):
                        res.append((k + 1, acc + [(d2, m2)]))
                return res
            for k, mem in members(i + 6, []):
                d0, m0 = mem[0]
                same = all(d is not None and m is not None and model.ekey(d) == model.ekey(d0) and model.ekey(m) == model.ekey(m0) for d, m in mem) if d0 is not None and m0 is not None else False
                out.append((k, d0, m0) if same else (k, "MISMATCH", "MISMATCH"))
        for lab, vals in self.atoms.items():
            if t.startswith(lab, i):  # (an empty label is read without consuming anything)
                for d, m in vals:
                    out.append((i + len(lab), d, m))
        for sym, pm in self.prefixes.items():
            if t.startswith(sym, i):
                # the prefix symbol is prepended to the *whole* label of the prefixed unit, whatever that label is
                for k, d2, m2 in self.label(i + len(sym)) + self.factor(i + len(sym)) + [(i + len(sym), {}, {})]:
                    out.append((k, d2, None if m2 is None or m2 == "MISMATCH" else model.emul(pm, m2)))
        self.memo[key] = out
        return out

    def factor(self, i):
        key = ("f", i)
        if key in self.memo:
            return self.memo[key]
        out = []
        for j, d, m in self.atom(i):
            out.append((j, d, m))
            if self.t.startswith("^", j):
                exps = []
                r = self.uint(j + 1)
                if r:
                    exps.append((r[0], Fraction(r[1])))
                if self.t.startswith("(", j + 1):
                    r = self.sint(j + 2)
                    if r:
                        if self.t.startswith(")", r[0]):
                            exps.append((r[0] + 1, Fraction(r[1])))
                        elif self.t.startswith("/", r[0]):
                            r2 = self.uint(r[0] + 1)
                            if r2 and self.t.startswith(")", r2[0]) and r2[1] != 0:
                                exps.append((r2[0] + 1, Fraction(r[1], r2[1])))
                for k, e in exps:
                    if d == "MISMATCH":
                        out.append((k, d, m))
                    else:
                        out.append((k, None if d is None else model.epow(d, e), None if m is None else model.epow(m, e)))
        self.memo[key] = out
        return out

    def product(self, i):
        out = []
        frontier = self.factor(i)
        seen = set()
        while frontier:
            nxt = []
            for j, d, m in frontier:
                sig = (j, None if d in (None, "MISMATCH") else model.ekey(d), None if m in (None, "MISMATCH") else model.ekey(m), d == "MISMATCH")
                if sig in seen:
                    continue
                seen.add(sig)
                out.append((j, d, m))
                if self.t.startswith(" * ", j):
                    for k, d2, m2 in self.factor(j + 3):
                        nxt.append((k,) + comb(d, m, d2, m2, 1))
            frontier = nxt
        return out

    def group(self, i, denominator=False):
        """a product, possibly parenthesised.  As a denominator only a single factor may stand bare: the documented grammar
        parenthesises a multi-term denominator, and an unparenthesised `a / b * c` reads (a / b) * c like any arithmetic text"""
        out = list(self.factor(i)) if denominator else list(self.product(i))
        if self.t.startswith("(", i):
            for j, d, m in self.product(i + 1):
                if self.t.startswith(")", j):
                    out.append((j + 1, d, m))
        return out

    def label(self, i):
        key = ("l", i)
        if key in self.memo:
            return self.memo[key]
        self.memo[key] = []  # recursion guard
        out = []
        heads = self.group(i)
        if self.t.startswith("1 / ", i):
            for k, d2, m2 in self.group(i + 4, denominator=True):
                out.append((k,) + comb({}, {}, d2, m2, -1))
        for j, d, m in heads:
            out.append((j, d, m))
            if self.t.startswith(" / ", j):
                for k, d2, m2 in self.group(j + 3, denominator=True):
                    out.append((k,) + comb(d, m, d2, m2, -1))
        self.memo[key] = out
        return out


def comb(d, m, d2, m2, sign):
    if d == "MISMATCH" or d2 == "MISMATCH":
        return ("MISMATCH", "MISMATCH")
    dd = None if d is None or d2 is None else model.emul(d, model.epow(d2, sign))
    mm = None if m is None or m2 is None else model.emul(m, model.epow(m2, sign))
    return (dd, mm)


def readings(text, atoms, prefixes):
    if text == "":
        return list(atoms[""]) if "" in atoms else [({}, {})]
    p = LabelParser(text, atoms, prefixes)
    return [(d, m) for j, d, m in p.label(0) if j == len(text)]


# ---- generation ------------------------------------------------------------------------------------
def cpp_lit(lab):
    """C++ narrow string literal for a label held as one character per byte"""
    out, need_split = ['"'], False
    for ch in lab:
        if ord(ch) >= 0x80:
            out.append(f"\\x{ord(ch):02x}")
            need_split = True
        else:
            if need_split:
                out.append('" "')  # end the hex escape before an ordinary character
                need_split = False
            out.append(ch)
    out.append('"')
    return "".join(out)


def wrap_typedefs(tree, rnd, decls, tdinfo, leaves, depth=0):
    """randomly replace subtrees by strong typedefs (labeled or not)"""
    k = tree[0]
    if k == "leaf":
        return tree
    if depth < 2 and rnd.random() < 0.22 and not model.has_ordering_tie(tree, leaves):
        inner = tree
        name = f"VfT{len(tdinfo)}"
        labeled = rnd.random() < 0.5
        # (a user unit may also carry the empty string as its label - a dimensionless "count", say)
        # ... or non-ASCII bytes (UTF-8 for the Greek capital omega, the micro sign, the degree sign), kept here as one character per byte
        r_ = rnd.random()
        n_ = len(tdinfo)
        lab = ("" if r_ < 0.15 else (rnd.choice([f"\u00ce\u00a9{n_}q", f"\u00c2\u00b5{n_}m", f"d{n_}\u00c2\u00b0"]) if r_ < 0.35 else f"t{n_}x")) if labeled else None
        tdinfo[name] = (inner, lab)
        return ("leaf", name)
    if k in ("mul", "div"):
        return (k, wrap_typedefs(tree[1], rnd, decls, tdinfo, leaves, depth + 1), wrap_typedefs(tree[2], rnd, decls, tdinfo, leaves, depth + 1))
    if k in ("pow", "root"):
        return (k, wrap_typedefs(tree[1], rnd, decls, tdinfo, leaves, depth + 1), tree[2])
    if k == "alias":
        return (k, tree[1], wrap_typedefs(tree[2], rnd, decls, tdinfo, leaves, depth + 1))
    if k == "scale":
        return (k, wrap_typedefs(tree[1], rnd, decls, tdinfo, leaves, depth + 1), tree[2], tree[3])
    if k == "prefix":
        return (k, tree[1], wrap_typedefs(tree[2], rnd, decls, tdinfo, leaves, depth + 1))
    return tree


LABEL_INTS = [9, 10, 99, 100, 999, 1000, 10 ** 6 - 1, 10 ** 9, 10 ** 12 + 39, 10 ** 15 - 11, 2 ** 32 - 5, 2 ** 61 - 1, 2 ** 63 - 25, 2 ** 64 - 59, 2 ** 64 - 1, 12345678901234567, 7, 5280, 254]


def run(chk, which="C18"):
    tier = chk.tier
    units = {u.type: u for u in model.scan_units()}
    lf = planeb.leaf_table(units)
    leaves0 = {k: (v[0], v[1]) for k, v in lf.items()}
    lib_labels = {u.type: unescape(u.label) if u.label is not None else None for u in units.values()}
    n_tu = 16 if tier == "quick" else 64
    per_tu = 45 if tier == "quick" else 110
    plans = []
    for ti in range(n_tu):
        rnd = core.rng("c18", tier, ti)
        names = sorted(units)
        decl_list, tdinfo = [], {}
        leaves = dict(leaves0)
        units_x = dict(units)
        stmts, entries = [], {}
        sid = 1
        trees = []
        guard = 0
        # every one of the 32 prefixes appears in every run (two per translation unit, round robin), on a plain library unit
        for pn in (model.PREFIXES[(2 * ti) % 32], model.PREFIXES[(2 * ti + 1) % 32]):
            trees.append(("prefix", pn[0], ("leaf", rnd.choice([n for n in names if n not in ("Rankines",)]))))
        while len(trees) < per_tu and guard < per_tu * 40:
            guard += 1
            r = rnd.random()
            if r < 0.2:
                # scaling by integers of every decimal length, rationals
                base = ("leaf", rnd.choice(names))
                n = rnd.choice(LABEL_INTS)
                t = ("scale", base, ("int", n) if n < 2 ** 64 and rnd.random() < 0.7 else ("mdiv", ("int", rnd.choice(LABEL_INTS[:8])), ("int", rnd.choice([7, 9, 1000, 3]))), rnd.choice("*/"))
            else:
                t = model.gen_tree(rnd, names, rnd.choice([1, 2, 2, 3]))
            if model.count_leaves(t) > 6 or model.has_ordering_tie(t, leaves0) or not model.max_exp_ok(model.ev(t, leaves0)):
                continue
            before = dict(tdinfo)
            t2 = wrap_typedefs(t, rnd, decl_list + list(tdinfo), tdinfo, leaves0)
            # register new typedef leaves
            for name, (inner, lab) in tdinfo.items():
                if name not in leaves:
                    e = model.ev(inner, leaves)
                    leaves[name] = (e.dim, e.mag)
                    units_x[name] = model.LibUnit(None, name, None, None, None, None, lab)
            if model.has_ordering_tie(t2, leaves):
                continue
            trees.append(t2)
        decls = []
        for name, (inner, lab) in tdinfo.items():
            expr = spell_x(inner, units_x)
            if lab is None:
                decls.append(f"struct {name} : decltype({expr}) {{}};")
            else:
                decls.append(f'struct {name} : decltype({expr}) {{ static constexpr const char label[] = {cpp_lit(lab)}; }}; constexpr const char {name}::label[];')
        for i, t in enumerate(trees):
            tag = f"l{ti}_{i}"
            expr = spell_x(t, units_x)
            entries[tag] = {"tree": t, "expr": expr}
            stmts.append((sid, f'vfy::reify_label<decltype({expr})>("{tag}");'))
            sid += 1
        # typedefs themselves (S8 class: an unlabeled typedef must not print somebody else's label)
        for name, (inner, lab) in tdinfo.items():
            tag = f"l{ti}_td_{name}"
            entries[tag] = {"tree": ("leaf", name), "expr": name}
            stmts.append((sid, f'vfy::reify_label<{name}>("{tag}");'))
            sid += 1
        # common units and common point units: library units and anonymous scalings of them (zero origins, so that the common
        # magnitude is the base-wise GCD for points as well)
        LEN = ["Meters", "Feet", "Inches", "Miles", "Yards"]
        for j in range(8):
            n_items = rnd.choice([2, 2, 3])
            items = []
            same_base = rnd.random() < 0.5
            b0 = rnd.choice(LEN)
            for _ in range(n_items):
                b = b0 if same_base else rnd.choice(LEN)
                k = rnd.choice([1, 2, 3, 6, 10, 4, 9, 15]) if (same_base or rnd.random() < 0.5) else 1
                items.append((f"au::{b}" if k == 1 else f"decltype(au::{b}{{}} * au::mag<{k}>())", b, model.emul(leaves0[b][1], model.mag_of_int(k))))
            if len({model.ekey(x[2]) for x in items}) < len(items):
                continue
            pt = rnd.random() < 0.5
            tmpl = "CommonPointUnitT" if pt else "CommonUnitT"
            tag = f"l{ti}_cu{j}"
            entries[tag] = {"common": items, "expr": f'{tmpl}<{", ".join(x[0] for x in items)}>'}
            stmts.append((sid, f'vfy::reify_label<au::{tmpl}<{", ".join(x[0] for x in items)}>>("{tag}");'))
            sid += 1
        # const-qualified unit types (what decltype of a constexpr unit variable gives): same label as the unqualified type
        for i, t in enumerate(trees[:10]):
            tag = f"l{ti}_{i}_const"
            expr = spell_x(t, units_x)
            entries[tag] = {"tree": t, "expr": f"const {expr}", "const_of": f"l{ti}_{i}"}
            stmts.append((sid, f'vfy::reify_label<const decltype({expr})>("{tag}");'))
            sid += 1
        plans.append((ti, stmts, entries, "\n".join(decls), leaves, tdinfo))

    flav = "G_asan"
    results = core.pmap(lambda p: planeb.build_run(f"c18_{p[0]}", p[1], units, flav, "c++14", decls=p[3]), plans)
    alt_jobs = [(p, "L_asan", "c++17") for p in plans[: (2 if tier == "quick" else 8)]]
    alt_results = core.pmap(lambda j: planeb.build_run(f"c18alt_{j[0][0]}", j[0][1], units, j[1], j[2], decls=j[0][3]), alt_jobs)

    n_labels = judged = unjudged = 0
    distinct = set()
    for (ti, stmts, entries, decls, leaves, tdinfo), (events, rejected, md5, err) in zip(plans, results):
        if err:
            rc, se = err
            if "AddressSanitizer" in se or "runtime error" in se:
                chk.violation(f"C18|sanitizer|tu={ti}", msg=f"sanitizer report while reading labels in TU {ti}: {se[-400:]}")
            else:
                chk.fail_inconclusive(f"C18 TU {ti} failed: {err}")
            continue
        by_sid = {s[0]: s[1] for s in stmts}
        for sid, msgs in rejected.items():
            chk.violation(f"C18|rejected|stmt={by_sid[sid][:200]}", msg=f"label of a valid unit expression rejected by the compiler: {by_sid[sid][:300]} :: {msgs[0][:200]}")
        label_of = dict(lib_labels)
        for name, (inner, lab) in tdinfo.items():
            label_of[name] = lab
        for ev in events:
            if ev["ev"] != "label":
                continue
            en = entries[ev["tag"]]
            n_labels += 1
            lab = ev["label"]
            if "const_of" in en:
                # a const-qualified unit type (decltype of a constexpr unit variable): the public function form unit_label(u),
                # which streaming uses, must give the unit's label (the UnitLabel<> trait is not asked about cv-qualified types)
                base = next((e2["label"] for e2 in events if e2.get("ev") == "label" and e2.get("tag") == en["const_of"]), None)
                if base is not None and base != ev["via_unit_label_fn"]:
                    chk.violation(f'C18|const_qualified|expr={en["expr"][:200]}', msg=f'unit_label() of the const-qualified type gives "{ev["via_unit_label_fn"]}", the unit itself "{base}" ({en["expr"][:200]})')
                continue
            distinct.add(lab)
            key = f'expr={en["expr"][:200]}'
            if ev["sizeof"] != ev["strlen"] + 1 or not ev["nul"]:
                chk.violation(f"C18|size|{key}", msg=f'sizeof(unit_label) = {ev["sizeof"]} but strlen = {ev["strlen"]} (NUL inside: {ev["nul"]}) for {en["expr"][:250]}: "{lab}"')
            if ev["via_unit_label_fn"] != lab:
                chk.violation(f"C18|fn_vs_trait|{key}", msg=f'unit_label(U{{}}) "{ev["via_unit_label_fn"]}" differs from unit_label<U>() "{lab}"')
            if "common" in en:
                items = en["common"]
                from .c07 import gcd_mag
                want_m = gcd_mag([x[2] for x in items])
                want_d = leaves[items[0][1]][0]
                atoms = {}
                for x in items:
                    atoms.setdefault(label_of[x[1]], []).append(leaves[x[1]])
                rs = readings(lab, atoms, {})
                good = [1 for d, m in rs if d not in (None, "MISMATCH") and model.ekey(d) == model.ekey(want_d) and m is not None and model.ekey(m) == model.ekey(want_m)]
                if not good:
                    chk.violation(f"C18|common_label|{key}", msg=f'label "{lab}" of {en["expr"][:200]} does not read as the common unit (each EQUIV member must denote it): readings {[(model.ekey(d) if isinstance(d, dict) else d, model.ekey(m) if isinstance(m, dict) else m) for d, m in rs][:2]}')
                if lab.startswith("EQUIV{") and lab.endswith("}"):
                    mem = lab[6:-1].split(", ")
                    if len(set(mem)) != len(mem) or len(mem) < 2:
                        chk.violation(f"C18|common_label_duplicates|{key}", msg=f'label "{lab}" of {en["expr"][:200]} lists the same constituent more than once (or only one)')
                judged += 1
                continue
            tree = en["tree"]
            e = model.ev(tree, leaves)
            # atoms: every named leaf (library unit or typedef) occurring in the tree, with the label it is documented to print
            idents = model.leaf_idents(tree, leaves)
            atoms = {}
            prefixes = {}
            unlabeled_present = False

            def visit(t):
                nonlocal unlabeled_present
                k = t[0]
                if k == "leaf":
                    l_ = label_of.get(t[1])
                    if l_ is None:
                        unlabeled_present = True
                        if t[1] in tdinfo:
                            visit(tdinfo[t[1]][0])  # whatever label it inherits must still denote *this* unit
                        else:
                            for ln, ll in lib_labels.items():  # unlabeled library unit (Rankines): allow any library label to be read
                                if ll:
                                    atoms.setdefault(ll, []).append(leaves[ln])
                    else:
                        atoms.setdefault(l_, []).append(leaves[t[1]])
                elif k in ("mul", "div"):
                    visit(t[1]); visit(t[2])
                elif k in ("pow", "root", "scale"):
                    visit(t[1])
                elif k == "alias":
                    visit(t[2])
                elif k == "prefix":
                    prefixes[model.PREFIX_BY_NAME[t[1]][4]] = model.prefix_mag(t[1])
                    visit(t[2])
            visit(tree)
            rs = readings(lab, atoms, prefixes)
            ok = False
            known = False
            for d, m in rs:
                if d == "MISMATCH":
                    continue
                if d is None:
                    ok = True  # contains an unlabeled/unknown part: cannot be judged semantically
                    continue
                known = True
                if model.ekey(d) == model.ekey(e.dim) and (m is None or model.ekey(m) == model.ekey(e.mag)):
                    ok = True
            if not rs:
                chk.violation(f"C18|grammar|{key}", msg=f'label "{lab}" of {en["expr"][:250]} does not follow the documented grammar over the labels of its named units')
            elif not ok:
                chk.violation(f"C18|wrong_unit|{key}", msg=f'label "{lab}" of {en["expr"][:250]} denotes a unit with different dimension/magnitude than the unit itself (exact mag {model.ekey(e.mag)})')
            if known:
                judged += 1
            else:
                unjudged += 1
            if len(chk.cov["samples"]) < 8 and len(lab) > 12 and known:
                chk.sample({"expr": en["expr"][:200], "label": lab, "sizeof": ev["sizeof"]})
    md5_main = {p[0]: r[2] for p, r in zip(plans, results)}
    for (p, fl, std), (events, rejected, md5, err) in zip(alt_jobs, alt_results):
        if err:
            chk.fail_inconclusive(f"alt config failed: {err}")
        elif md5 != md5_main[p[0]]:
            chk.violation(f"C18|config_diff|{fl}|{std}|tu={p[0]}", msg=f"labels of TU {p[0]} differ between g++ c++14 and {fl} {std} (labels must be deterministic)")
    ni, nb = run_itoa_and_stream(chk, tier)
    chk.add_evals(n_labels + ni, len(distinct))
    chk.cov["rule"] = ("labels of generated unit expressions (the C02 generator + integer/rational scalings of every decimal length + labeled and unlabeled strong typedefs + common units) are read under ASan "
                       "(every byte sizeof says exists) and parsed back with the documented grammar over the labels of the named units in the expression; every reading must denote the unit's exact dimension "
                       "and magnitude; IToA/UIToA and operator<< are compared with Python's decimal rendering; distinct_nontrivial = distinct label strings observed")
    chk.notes.update({"labels": n_labels, "semantically_judged": judged, "contain_unlabeled_parts": unjudged, "itoa_cases": ni, "stream_cases": nb})
    chk.assumptions += ["the order of factors inside one product is unspecified, so labels are judged by what they denote, not by string equality with a model rendering",
                        "a label containing [UNLABELED UNIT] or (UNLABELED SCALE FACTOR) is only checked for dimension (and size/termination)"]
    return chk


def spell_x(tree, units_x):
    """like model.spell(.., 'unit', ..) but typedef leaves are spelled by their struct name"""
    k = tree[0]
    if k == "leaf":
        u = units_x[tree[1]]
        return f"au::{u.type}{{}}" if u.header else f"{u.type}{{}}"
    if k in ("mul", "div"):
        return f"({spell_x(tree[1], units_x)} {'*' if k == 'mul' else '/'} {spell_x(tree[2], units_x)})"
    if k == "pow":
        return f"au::pow<{tree[2]}>({spell_x(tree[1], units_x)})"
    if k == "root":
        return f"au::root<{tree[2]}>({spell_x(tree[1], units_x)})"
    if k == "alias":
        return f"au::{tree[1]}({spell_x(tree[2], units_x)})"
    if k == "scale":
        return f"({spell_x(tree[1], units_x)} {tree[3]} {model.mag_spell(tree[2])})"
    if k == "prefix":
        return f"au::{tree[1]}<decltype({spell_x(tree[2], units_x)})>{{}}"
    raise ValueError(tree)


def run_itoa_and_stream(chk, tier):
    rnd = core.rng("c18itoa", tier)
    vals = {0, 1, -1, 9, -9, 10, -10, 2 ** 63 - 1, -(2 ** 63 - 1)}
    for k in range(1, 19):
        vals |= {10 ** k - 1, 10 ** k, -(10 ** k - 1), -(10 ** k), 10 ** k + 1}
    for _ in range(200 if tier == "quick" else 3000):
        v = rnd.getrandbits(rnd.randint(1, 63))
        vals |= {v, -v}
    uvals = {0, 1, 9, 10, 2 ** 64 - 1, 2 ** 64 - 59, 2 ** 63, 10 ** 19, 10 ** 19 - 1} | {10 ** k for k in range(20)} | {rnd.getrandbits(64) for _ in range(100)}
    L = ['#include "au/au.hh"', '#include "au/io.hh"', '#include "au/units/meters.hh"', '#include "au/units/seconds.hh"', "#include <sstream>", "#include <iomanip>", "#include <cstdio>", "#include <cstring>", "#include <cstdint>",
         "template <typename S> void put(const char *kind, long long a, unsigned long long u, const S &s) { printf(\"{\\\"ev\\\":\\\"itoa\\\",\\\"kind\\\":\\\"%s\\\",\\\"a\\\":%lld,\\\"u\\\":%llu,\\\"s\\\":\\\"%s\\\",\\\"size\\\":%zu,\\\"sizeof\\\":%zu}\\n\", kind, a, u, s.c_str(), s.size(), sizeof(s.char_array())); }",
         "template <typename Q> void st(const char *rep, Q q, long double v) { std::ostringstream os; os << q; printf(\"{\\\"ev\\\":\\\"stream\\\",\\\"rep\\\":\\\"%s\\\",\\\"v\\\":\\\"%.21Lg\\\",\\\"out\\\":\\\"%s\\\"}\\n\", rep, v, os.str().c_str()); }",
         # the same quantity into an identically configured second stream as "<promoted raw value> <label>": "prints its numeric value" means
         # the number is formatted by the stream it is sent to, with whatever flags, precision, width and fill the caller set on it
         "template <typename Q> void stf(const char *rep, Q q, int mode) { std::ostringstream a, b; auto cfg = [&](std::ostream &o) { switch (mode) { case 0: o << std::fixed << std::setprecision(1); break; "
         "case 1: o << std::scientific << std::setprecision(3) << std::uppercase; break; case 2: o << std::hex << std::showbase; break; case 3: o << std::showpos; break; "
         "case 4: o << std::setw(12) << std::left << std::setfill('*'); break; case 5: o << std::showpoint << std::setprecision(3); break; default: o << std::oct; } }; cfg(a); cfg(b); "
         "a << q; b << +q.in(typename Q::Unit{}) << \" \" << au::unit_label(typename Q::Unit{}); "
         "printf(\"{\\\"ev\\\":\\\"streamf\\\",\\\"rep\\\":\\\"%s\\\",\\\"mode\\\":%d,\\\"out\\\":\\\"%s\\\",\\\"want\\\":\\\"%s\\\"}\\n\", rep, mode, a.str().c_str(), b.str().c_str()); }",
         "int main() {"]
    for v in sorted(vals):
        lit = f"{v}LL" if v > -(2 ** 63) else "(-9223372036854775807LL-1)"
        L.append(f'  put("i", {lit}, 0, au::detail::IToA<{lit}>::value);')
    for v in sorted(uvals):
        L.append(f'  put("u", 0, {v}ull, au::detail::UIToA<{v}ull>::value);')
    reps = [("int8_t", [65, -1, 0, 127, -128]), ("uint8_t", [65, 255, 0]), ("int16_t", [-32768, 65]), ("uint16_t", [65535]), ("int32_t", [-2147483647, 65]), ("uint32_t", [4294967295]),
            ("int64_t", [-(2 ** 63 - 1), 65]), ("uint64_t", [2 ** 64 - 1]), ("float", [1.5, -0.25, 65.0]), ("double", [1e100, -2.5, 0.1]), ("long double", [3.0]),
            # every character type is an 8-bit rep in its own right (plain char is a third distinct type), and the other spellings of the wider integers
            ("char", [65, 35, 0, 127]), ("signed char", [65, -1, -128]), ("unsigned char", [65, 200, 255]), ("short", [-65, 66]), ("unsigned short", [65]), ("long", [-65]), ("unsigned long", [65]),
            ("long long", [65, -(2 ** 62)]), ("unsigned long long", [2 ** 64 - 1, 65])]
    FLOATS = ("float", "double", "long double")
    ns = 0
    for rep, vs in reps:
        for v in vs:
            lit = f"({rep}){v}" + ("" if rep in FLOATS else ("ull" if v > 2 ** 63 - 1 else "ll"))
            L.append(f'  st("{rep}", au::meters(({rep}){lit}), (long double)(({rep}){lit}));')
            L.append(f'  st("{rep}", (au::meters / au::second)(({rep}){lit}), (long double)(({rep}){lit}));')
            L.append(f'  st("pt:{rep}", au::meters_pt(({rep}){lit}), (long double)(({rep}){lit}));')
            ns += 3
    for rep, v in (("double", "1234567.0"), ("float", "2.5f"), ("int", "255"), ("int8_t", "(int8_t)65"), ("uint8_t", "(uint8_t)200"), ("int64_t", "-255LL"), ("long double", "0.1L"), ("uint16_t", "(uint16_t)4096")):
        for mode in range(7):
            L.append(f'  stf("{rep}", au::meters(({rep}){v}), {mode}); stf("{rep}", (au::meters / au::second)(({rep}){v}), {mode});')
            ns += 2
    # const-qualified unit types (decltype of a constexpr unit variable) must stream exactly like the unit
    L.append('  { constexpr auto mps = au::Meters{} / au::Seconds{}; st("int", au::make_quantity<decltype(mps)>(65), 65.0L); st("double", au::make_quantity<const decltype(au::Meters{} / au::Seconds{})>(2.5), 2.5L); st("int", au::make_quantity<const au::Meters>(65), 65.0L); }')
    ns += 3
    L += ['  printf("{\\"ev\\":\\"done\\"}\\n");', "}"]
    d = core.subdir("c18i")
    src = core.write(os.path.join(d, "itoa.cc"), "\n".join(L))
    exe = os.path.join(d, "itoa.exe")
    rc, se = core.build(src, exe, "G_asan")
    if rc != 0:
        raise core.Inconclusive(f"IToA harness failed to compile: {se[:400]}")
    env = dict(os.environ, ASAN_OPTIONS="detect_leaks=0")
    rc, so, se = core.sh([exe], timeout=300, env=env)
    if rc != 0:
        chk.violation("C18|sanitizer|itoa", msg=f"sanitizer/abort in IToA / operator<< harness: {se[-300:]}")
        return 0, 0
    ni = nb = 0
    for l in so.splitlines():
        if not l.startswith("{"):
            continue
        ev = json.loads(l)
        if ev["ev"] == "itoa":
            ni += 1
            want = str(ev["a"]) if ev["kind"] == "i" else str(ev["u"])
            if ev["s"] != want or ev["size"] != len(want) or ev["sizeof"] != len(want) + 1:
                chk.violation(f'C18|itoa|{ev["kind"]}|n={want}', msg=f'{"IToA" if ev["kind"] == "i" else "UIToA"}<{want}> renders "{ev["s"]}" (size {ev["size"]}, sizeof {ev["sizeof"]})')
        elif ev["ev"] == "streamf":
            nb += 1
            if ev["out"] != ev["want"]:
                chk.violation(f'C18|stream_format|rep={ev["rep"]}|mode={ev["mode"]}', msg=f'operator<< of a {ev["rep"]} quantity into a stream with format mode {ev["mode"]} (0 fixed.1, 1 SCIENTIFIC.3, 2 hex showbase, 3 showpos, 4 width 12 left fill *, 5 showpoint.3, 6 oct) printed "{ev["out"]}"; the raw value and label sent to the same stream print "{ev["want"]}"')
        elif ev["ev"] == "stream":
            nb += 1
            out = ev["out"]
            is_pt = ev["rep"].startswith("pt:")
            ev["rep"] = ev["rep"][3:] if is_pt else ev["rep"]
            if is_pt:  # documented form "@(<value> <label>)"
                ok_wrap = out.startswith("@(") and out.endswith(")")
                out = out[2:-1] if ok_wrap else "? ?"
            num, _, lab = out.partition(" ")
            ok = lab in ("m", "m / s")
            try:
                ok = ok and abs(float(num) - float(ev["v"])) <= abs(float(ev["v"])) * 1e-5
            except ValueError:
                ok = False
            if ev["rep"] not in ("float", "double", "long double"):
                ok = ok and num == str(int(float(ev["v"]))) if abs(float(ev["v"])) < 2 ** 53 else ok and num.lstrip("-").isdigit()
            if not ok:
                chk.violation(f'C18|stream|rep={ev["rep"]}|v={ev["v"]}', msg=f'operator<< of a {ev["rep"]} quantity with value {ev["v"]} printed "{out}"')
    return ni, nb
