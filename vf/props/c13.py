"""C13: Quantity / QuantityPoint are zero-overhead transparent wrappers around their rep."""
import json
import os

from .. import ccmon, core, model

REPS = ["int8_t", "uint8_t", "int16_t", "uint16_t", "int32_t", "uint32_t", "int64_t", "uint64_t", "float", "double", "long double"]
INTEGRAL = set(REPS[:8])

OPS = [("a + b", None), ("a - b", None), ("a % b", "int"), ("+a", None), ("-a", None), ("a += b", None), ("a -= b", None), ("a *= s", None), ("a /= s", None),
       ("a * s", None), ("s * a", None), ("a / s", None), ("a == b", None), ("a != b", None), ("a < b", None), ("a <= b", None), ("a > b", None), ("a >= b", None)]


def rid(rep):
    return rep.replace(" ", "_")


def emit_tu(rep, units, extra_units):
    inc = "\n".join(f'#include "{h}"' for h in sorted({u.header for u in units.values()}))
    L = [f'#include "au/au.hh"\n{inc}\n#include "vf_wrapper.hh"\n#include <string>\n', f"using R = {rep};",
         "int main(int argc, char **argv) {", "  std::string mode = argc > 1 ? argv[1] : \"layout\";", "  vf::install_handlers();",
         '  auto U = [&](int i) { return argc > i ? strtoull(argv[i], 0, 10) : 0ull; };',
         '  if (mode == "layout") {']
    for u in units.values():
        L.append(f'    vfw::layout<au::{u.type}, R>("{u.type}", "{rep}");')
    for i, (name, expr) in enumerate(extra_units):
        L.append(f'    {{ using namespace au; vfw::layout<decltype({expr}), R>("{name}", "{rep}"); }}')
    L.append("  }")
    L.append('  if (mode == "ops") {')
    opsu = [("Meters", "au::Meters"), ("MetersPerSecond", "decltype(au::Meters{} / au::Seconds{})"), ("KiloGrams", "au::Kilo<au::Grams>"), ("Unos", "au::Unos")]
    for i, (n, t) in enumerate(opsu):
        L.append(f'    vfw::result_types<{t}, R>();')
        L.append(f'    vfw::run_ops<{t}, R>({i}, "{rep}", "{n}", U(2), U(3) + {i});')
    # scalars of another type than the rep
    flt = rep in ("float", "double", "long double")
    scalars = [x for x in (["float", "double", "long double", "int", "int64_t", "uint8_t"] if flt else ["int8_t", "int16_t", "int", "unsigned", "int64_t", "uint64_t", "uint8_t", "float", "double"]) if x != rep and not (x == "int" and rep == "int32_t") and not (x == "unsigned" and rep == "uint32_t")]
    for j, sc in enumerate(scalars):
        L.append(f'    vfw::run_mixed_scalar<au::Meters, R, {sc}>({100 + j}, "{rep}", "{sc}", U(2) / 4 + 50, U(3) + {100 + j});')
    L.append("  }")
    L.append('  if (mode == "rt") { vfw::run_roundtrip<au::Meters, R, void>(100, "%s", U(2), U(3), U(4), U(5), (int)U(6)); }' % rep)
    L += ["  vf::print_traps_json(); vf::print_diag_json();", '  printf("{\\"ev\\":\\"done\\"}\\n");', "  return 0;", "}"]
    return "\n".join(L) + "\n"


def probes_for(cfg_units="au::Meters"):
    probes = []
    pid = 1
    for rep in REPS:
        for op, only in OPS:
            if only == "int" and rep not in INTEGRAL:
                continue
            q = f"au::Quantity<{cfg_units}, {rep}>"
            probes.append({"id": pid, "rep": rep, "op": op, "kind": "quantity", "expect": "accept",
                           "text": f"void vf_p{pid}({q} a, {q} b, {rep} s) {{ auto r = ({op}); (void)r; (void)a; (void)b; (void)s; }}"})
            pid += 1
            probes.append({"id": pid, "rep": rep, "op": op, "kind": "raw", "expect": "accept",
                           "text": f"void vf_p{pid}({rep} a, {rep} b, {rep} s) {{ auto r = ({op}); (void)r; (void)a; (void)b; (void)s; }}"})
            pid += 1
    return probes


def run(chk, which="C13"):
    tier = chk.tier
    units = {u.type: u for u in model.scan_units()}
    if len(units) < 50:
        raise core.Inconclusive("unit scan failed")
    rnd = core.rng("c13", tier)
    names = sorted(units)
    extra = []
    n_extra = 20 if tier == "quick" else 60
    while len(extra) < n_extra:
        t = model.gen_tree(rnd, names, rnd.choice([1, 2, 2]))
        if model.count_leaves(t) > 5:
            continue
        # ordering ties need the leaf table; avoid them structurally by never repeating a dimension-sharing risk: use distinct leaves only from a safe pool
        if any(x in repr(t) for x in ("Hertz", "Becquerel", "Celsius", "Fahrenheit", "Rankines", "Kelvins")):
            continue
        extra.append((f"gen{len(extra)}", model.spell(t, "unit", units)))
    d = core.subdir("c13")

    # ---- Plane C: every operator on every rep in every configuration -----------------------------
    probes = probes_for()
    cfgs = core.CONFIGS if tier == "thorough" else [(core.GXX, "c++14"), (core.CLANGXX, "c++14"), (core.CLANGXX, "c++20"), (core.GXX, "c++17")]
    pre = '#include "au/au.hh"\n#include "au/units/meters.hh"\n#include <cstdint>\n'

    def do_cfg(cfg):
        pr = ccmon.ProbeRun(pre, cfg[0], cfg[1], batch=400)
        return cfg, pr.run(probes, tag="c13p"), pr

    # (-O0 builds: the compiler may not fold an identity operation such as x * 1, which would quiet a signalling NaN)
    flav = ["G_trap", "L_plain", "G_O0"] if tier == "quick" else ["G_trap", "L_plain", "G_plain", "Lub_trap", "G_O0", "L_O0"]
    builds = [(rep, fl) for rep in REPS for fl in flav]
    core.reach(chk, emit_tu("double", units, extra[:6]), [["layout"], ["ops", 60, 1], ["rt", 0, 2000, 1, 1, 1]])

    def do_build(job):
        rep, fl = job
        src = os.path.join(d, f"{rid(rep)}_{fl}.cc")
        exe = os.path.join(d, f"{rid(rep)}_{fl}.exe")
        core.write(src, emit_tu(rep, units, extra))
        rc, se = core.build(src, exe, fl)
        return rep, fl, exe if rc == 0 else None, se

    cfg_results = core.pmap(do_cfg, cfgs)
    built = core.pmap(do_build, builds)

    nprobe = 0
    for cfg, res, pr in cfg_results:
        by = {p["id"]: p for p in probes}
        for pid, r in res.items():
            nprobe += 1
            if r.get("unverified"):
                continue
            p = by[pid]
            if p["kind"] == "quantity" and r["rejected"]:
                raw = res[pid + 1]
                if not raw["rejected"]:
                    chk.violation(f'C13|reject|cfg={cfg[0]}:{cfg[1]}|rep={p["rep"]}|op={p["op"]}',
                                  msg=f'{cfg[0]} -std={cfg[1]} rejects `{p["op"]}` on Quantity<Meters,{p["rep"]}> although the raw operator on {p["rep"]} compiles: {r["msgs"][:1]}')
            if p["kind"] == "raw" and r["rejected"]:
                chk.fail_inconclusive(f"control probe rejected: {p['op']} on {p['rep']} under {cfg}")

    # ---- Plane A ---------------------------------------------------------------------------------
    jobs = []
    nrandom = 300 if tier == "quick" else 3000
    seed = core.sub_seed("c13") % (2 ** 62)
    for rep, fl, exe, se in built:
        if exe is None:
            # the harness itself does not compile under this compiler: attribute it
            by, loose = ccmon.attribute(se)
            first = (se.split("error:")[1][:200] if "error:" in se else se[:200])
            chk.violation(f'C13|harness_reject|flavour={fl}|rep={rep}', msg=f"operator harness for rep {rep} does not compile under {fl}: {first}")
            continue
        if fl == flav[0]:
            jobs.append((exe, ["layout"], rep, fl, "layout"))
        jobs.append((exe, ["ops", nrandom, seed], rep, fl, "ops"))
        if fl in ("G_O0", "L_O0"):
            # unoptimised build: the NaN regions (signalling NaNs included) and a random sample are enough here
            if rep == "float":
                jobs.append((exe, ["rt", 0x7f800000, 2 ** 23 // 64, 64, seed, 0], rep, fl, "rt"))
                jobs.append((exe, ["rt", 0xff800000, 2 ** 23 // 64, 64, seed, 0], rep, fl, "rt"))
            elif rep in ("double", "long double"):
                jobs.append((exe, ["rt", 0, 2 ** 19, 1, seed + 9, 1], rep, fl, "rt"))
        if fl in ("L_plain", "G_plain"):
            if rep == "float":
                total = 2 ** 32
                if tier == "thorough" and fl == "L_plain":
                    for k in range(16):
                        jobs.append((exe, ["rt", k * (total // 16), total // 16, 1, seed, 0], rep, fl, "rt"))
                else:
                    off = seed % 256
                    for k in range(4):
                        jobs.append((exe, ["rt", off + k * (total // 4), (total // 4) // 256, 256, seed, 0], rep, fl, "rt"))
                    # every NaN/inf exponent pattern region: 0x7f800000.. and 0xff800000.. sampled densely
                    jobs.append((exe, ["rt", 0x7f800000, 2 ** 23 // 16, 16, seed, 0], rep, fl, "rt"))
                    jobs.append((exe, ["rt", 0xff800000, 2 ** 23 // 16, 16, seed, 0], rep, fl, "rt"))
            elif rep in ("double", "long double", "int64_t", "uint64_t", "int32_t", "uint32_t"):
                jobs.append((exe, ["rt", 0, 2 ** 22 if tier == "quick" else 2 ** 25, 1, seed + 7, 1], rep, fl, "rt"))
            elif rep in ("int8_t", "uint8_t", "int16_t", "uint16_t"):
                jobs.append((exe, ["rt", 0, 2 ** 16, 1, seed, 0], rep, fl, "rt"))

    def do_run(job):
        exe, args, rep, fl, what = job
        rc, so, se = core.sh([exe] + [str(a) for a in args], timeout=3600)
        if rc != 0 or '"ev":"done"' not in so:
            raise core.Inconclusive(f"C13 {what} run failed for {rep} ({fl}) rc={rc}: {se[-300:]}")
        return rep, fl, what, [json.loads(l) for l in so.splitlines() if l.startswith("{")]

    runs = core.pmap(do_run, jobs)
    evals = 0
    layouts = 0
    distinct = set()
    for rep, fl, what, events in runs:
        for ev in events:
            if ev["ev"] == "layout":
                layouts += 1
                distinct.add(("layout", ev["kind"], ev["unit"], rep))
                bad = []
                if ev["sizeof"] != ev["rsizeof"]:
                    bad.append(f'sizeof {ev["sizeof"]} != {ev["rsizeof"]}')
                if ev["alignof"] != ev["ralignof"]:
                    bad.append(f'alignof {ev["alignof"]} != {ev["ralignof"]}')
                for k in ("triv_copy", "triv_dtor", "std_layout", "default_is_zero"):
                    if not ev[k]:
                        bad.append(f"{k} false")
                if bad:
                    chk.violation(f'C13|layout|{ev["kind"]}|unit={ev["unit"]}|rep={rep}', msg=f'{ev["kind"]}<{ev["unit"]},{rep}>: ' + "; ".join(bad))
            elif ev["ev"] == "rtype":
                evals += 1
                if not ev["same"]:
                    chk.violation(f'C13|result_type|rep={rep}|op={ev["op"]}', msg=f'result rep of `{ev["op"]}` on Quantity<.,{rep}> is {ev["got"]}, the raw operator yields {ev["want"]} ({fl})')
            elif ev["ev"] in ("ops", "roundtrip"):
                evals += ev["evals"]
                distinct.add((ev["ev"], rep, ev.get("unit"), fl))
                for w in ev["wit"]:
                    chk.violation(f'C13|value|rep={rep}|op={w["op"]}|x={w["a"]},{w.get("b")}',
                                  msg=f'{fl}: `{w["op"]}` on {rep} operands a={w["a"]} b={w.get("b")}: wrapper gives {w["got"]}, raw gives {w.get("want")}')
                if len(chk.cov["samples"]) < 8 and ev["ev"] == "ops":
                    chk.sample({"rep": rep, "unit": ev["unit"], "build": fl, "operand_pairs": ev["pairs"], "operator_evaluations": ev["evals"], "skipped_because_raw_operator_is_UB": ev["skipped_raw_ub"]})
            elif ev["ev"] == "traps":
                for r in ev["recs"]:
                    if r["phase"] == "OPERATION":
                        chk.violation(f'C13|trap|rep={rep}|x={r["aux0"]},{r["aux1"]}', msg=f'{fl}: UB trapped inside a Quantity operator on {rep} operands bits {r["aux0"]:#x}, {r["aux1"]:#x} although the raw operator is defined there')
                    else:
                        chk.fail_inconclusive(f"trap in harness phase {r['phase']} ({rep}, {fl})")
    chk.add_evals(evals + layouts + nprobe, len(distinct))
    chk.cov["rule"] = ("layout facts for every library unit + generated compound units x 11 reps x {Quantity, QuantityPoint}; operator values and result types vs the raw operator on the same "
                       "laundered operands (all 2^16 pairs for 8-bit reps, boundary + random otherwise, pairs where the raw operator is UB skipped by a 128-bit oracle); bit-exact round trip over "
                       "float/double/long double/int patterns; per-operator compile probes with raw controls in several compiler/standard configurations; "
                       "distinct_nontrivial = distinct (wrapper, unit, rep) layout instances + (rep, unit, build) operator/round-trip streams")
    chk.notes.update({"layout_instances": layouts, "compile_probes": nprobe, "configurations": [f"{c} {s}" for c, s in cfgs], "builds": flav, "generated_units": len(extra)})
    chk.assumptions += ["both-NaN results count as equal for operator values; the round trip demands bit equality (10 value bytes for x87 long double)",
                        "scalars are of the same rep as the quantity, so the raw expression compared with is the one the property names"]
    return chk
