"""Plane C: compile-outcome monitoring.

A *probe* is one line of C++ (a whole declaration: a function definition, a static_assert, an alias)
placed after `#line <10*id> "vfprobe"`.  Batches of probes are compiled -fsyntax-only with the error
limit removed; every error group in the diagnostic stream is attributed to the probe line(s) it
mentions.  Any probe whose batch outcome differs from what the caller expected is re-compiled alone
and the isolated outcome is what counts (DESIGN.md section 1, Plane C).
"""
import os
import re

from . import core

_PROBE_RE = re.compile(r"vfprobe:(\d+)")
_GCC_CONTEXT = re.compile(
    r"(: In (instantiation|substitution|function|member|static|constructor|destructor|lambda|copy|move|expansion)|"
    r":\s+(required|recursively required)|^In file included from|^\s+from |: At global scope|: In )")


def split_groups(stderr_text):
    """Split a gcc/clang diagnostic stream into groups, each containing exactly one error line
    plus its context (gcc prints instantiation context *before* the error) and trailing notes."""
    groups = []
    cur = []
    cur_has_error = False
    for line in stderr_text.splitlines():
        is_err = (": error:" in line) or (": fatal error:" in line)
        is_ctx = bool(_GCC_CONTEXT.search(line)) and not is_err and ": note:" not in line
        if is_err:
            if cur_has_error:
                groups.append(cur)
                cur = []
            cur.append(line)
            cur_has_error = True
        elif is_ctx:
            if cur_has_error:
                groups.append(cur)
                cur = []
                cur_has_error = False
            cur.append(line)
        else:
            cur.append(line)
    if cur and cur_has_error:
        groups.append(cur)
    return groups


def attribute(stderr_text):
    """-> (dict probe_line -> [error message lines], list of unattributed error lines)"""
    by = {}
    loose = []
    for g in split_groups(stderr_text):
        err = next((l for l in g if ": error:" in l or ": fatal error:" in l), g[0])
        ids = set(int(m) for l in g for m in _PROBE_RE.findall(l))
        if not ids:
            loose.append(err)
            continue
        for i in ids:
            by.setdefault(i, []).append(err.strip()[:300])
    return by, loose


def emit(preamble, probes):
    """probes: list of (id, text).  text must be a single line."""
    out = [preamble, ""]
    for pid, text in probes:
        assert "\n" not in text, text
        out.append(f'#line {pid * 10} "vfprobe"')
        out.append(text)
    out.append('#line 1 "vftail"')
    out.append("int main() { return 0; }")
    return "\n".join(out) + "\n"


def compile_batch(preamble, probes, compiler, std, tag, extra_flags="", timeout=900, no_repo_inc=False, extra_inc=()):
    d = core.subdir("ccmon")
    src = os.path.join(d, f"{tag}.cc")
    core.write(src, emit(preamble, probes))
    cmd = core.compile_cmd(compiler, std, extra_flags, src, syntax_only=True, no_repo_inc=no_repo_inc, extra_inc=extra_inc)
    rc, so, se = core.sh(cmd, timeout=timeout)
    if rc == -9:  # wall-clock watchdog only (a batch takes seconds on an idle machine): once more, with a longer leash, before giving up
        rc, so, se = core.sh(cmd, timeout=timeout * 4)
    if rc == -9:
        raise core.Inconclusive(f"compiler timeout on batch {tag}")
    by, loose = attribute(se)
    rejected = {k // 10: v for k, v in by.items()}
    if rc != 0 and not rejected and not loose:
        loose = ["(compiler failed with no parsable error) " + se[:300]]
    try:
        os.unlink(src)
    except OSError:
        pass
    return rc, rejected, loose


class ProbeRun:
    """Run many probes in batches (in parallel), then isolate disagreements.

    probes: list of dicts {id:int, text:str, expect:'accept'|'reject'|None, ...}.  Returns dict
    id -> {'rejected':bool, 'msgs':[...], 'isolated':bool}."""

    def __init__(self, preamble, compiler=core.GXX, std="c++14", batch=150, extra_flags="", no_repo_inc=False, extra_inc=()):
        self.preamble = preamble
        self.compiler = compiler
        self.std = std
        self.batch = batch
        self.extra_flags = extra_flags
        self.no_repo_inc = no_repo_inc
        self.extra_inc = extra_inc
        self.n_batches = 0
        self.n_isolated = 0
        self.n_unverified = 0
        self.preamble_ok = False
        self.loose = []

    def run(self, probes, tag="b"):
        probes = list(probes)
        if not self.preamble_ok:
            rc0, rej0, loose0 = compile_batch(self.preamble, [], self.compiler, self.std, f"{tag}_pre_{'clang' if 'clang' in self.compiler else 'gcc'}_{self.std.replace('+', 'p')}",
                                              self.extra_flags, no_repo_inc=self.no_repo_inc, extra_inc=self.extra_inc)
            if rc0 != 0:
                raise core.Inconclusive(f"probe preamble does not compile ({self.compiler} {self.std}): {(loose0 or ['?'])[0][:300]}")
            self.preamble_ok = True
        if any("dedup_key" in p for p in probes):
            # probes sharing a template specialisation whose static_assert fires only once per TU go to different batches
            batches, keys = [], []
            for p in probes:
                k = p.get("dedup_key")
                for b, ks in zip(batches, keys):
                    if len(b) < self.batch and (k is None or k not in ks):
                        b.append(p)
                        ks.add(k)
                        break
                else:
                    batches.append([p])
                    keys.append({k})
        else:
            batches = [probes[i:i + self.batch] for i in range(0, len(probes), self.batch)]
        self.n_batches += len(batches)
        cname = "clang" if "clang" in self.compiler else "gcc"

        def do(ib):
            i, b = ib
            return compile_batch(self.preamble, [(p["id"], p["text"]) for p in b], self.compiler, self.std,
                                 f"{tag}_{cname}_{self.std.replace('+', 'p')}_{i}", self.extra_flags,
                                 no_repo_inc=self.no_repo_inc, extra_inc=self.extra_inc)

        results = core.pmap(do, list(enumerate(batches)))
        out = {}
        todo = []
        for b, (rc, rejected, loose) in zip(batches, results):
            if loose:
                self.loose += loose[:5]
            # errors that mention no probe line are normally follow-on diagnostics of an already attributed
            # instantiation (gcc prints the instantiation context once); they force a batch-wide re-check
            # only when nothing at all could be attributed.
            loose = loose if (rc != 0 and not rejected) else []
            for p in b:
                rej = p["id"] in rejected
                out[p["id"]] = {"rejected": rej, "msgs": rejected.get(p["id"], [])[:3], "isolated": False}
                exp = p.get("expect")
                if loose or (exp == "accept" and rej) or (exp == "reject" and not rej):
                    todo.append(p)
        # isolation re-check of every disagreement (and of whole batches with unattributable errors)
        if len(todo) > 6000:
            # something systematic; isolating 6000 is enough to demonstrate.  Verdicts that could not
            # be re-checked alone are marked unverified and must not be reported by callers.
            for p in todo[6000:]:
                out[p["id"]]["unverified"] = True
            self.n_unverified += len(todo) - 6000
            todo = todo[:6000]

        def iso(p):
            rc, rejected, loose = compile_batch(self.preamble, [(p["id"], p["text"])], self.compiler, self.std,
                                                f"{tag}_{cname}_{self.std.replace('+', 'p')}_iso{p['id']}", self.extra_flags,
                                                no_repo_inc=self.no_repo_inc, extra_inc=self.extra_inc)
            return p, rc, rejected, loose

        for p, rc, rejected, loose in core.pmap(iso, todo):
            self.n_isolated += 1
            # alone in its TU (the preamble was verified to compile on its own), any error belongs to the probe
            out[p["id"]] = {"rejected": rc != 0, "msgs": (rejected.get(p["id"], []) + loose)[:3], "isolated": True}
        return out
