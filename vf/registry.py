"""Which properties are claimed, by which module, with what level text (feeds MANIFEST.json and ./check)."""
CHECKS = {
    "C03": {
        "module": ("vf.props.conv", "C03"), "engine": "planeA",
        "technique": "runtime monitoring: sanitizer-trap attribution + exact 128-bit oracle over exhaustive/boundary/random value streams",
        "text": "Every (rep, N/D) instance of the grid is executed on all 8/16-bit values (32-bit exhaustively in the thorough tier) and on exact-threshold neighbourhoods + random 32/64-bit values under gcc UBSan and clang UBSan+unsigned-overflow+implicit-conversion in trap mode; each checker-cleared conversion result is compared with the exact x*N/D and every sanitizer trap inside the conversion is attributed to its input. Held-on-observed, not a proof for all 2^64 inputs.",
        "note": "Trusted: the __int128 oracle in harness/vf_conv.hh, g++ 12 / clang 14 sanitizer runtimes, x86-64. 64-bit reps are sampled (threshold-complete), factors limited to N, D < 2^64.",
    },
    "C04": {
        "module": ("vf.props.conv", "C04"), "engine": "planeA",
        "technique": "runtime monitoring: checker return values vs exact 128-bit range/divisibility predicates on exhaustive/boundary/random value streams; UB traps inside checkers",
        "text": "will_conversion_truncate / will_conversion_overflow / is_conversion_lossy are evaluated on every value of the C03 streams and compared with the exact predicates (rational comparison in 128-bit sign-magnitude arithmetic); floating reps are judged outside a 2^-20 guard band around max/f. The per-instance 64-bit proof mentioned in the property's quantifier is a different technique family and is not attempted; it is replaced by threshold-neighbourhood completeness plus exhaustive narrow-type runs of the same template.",
        "note": "Trusted: oracle in harness/vf_conv.hh; instances whose conversion does not compile are excluded as the property states (logged as leads).",
    },
    "C05": {
        "module": ("vf.props.c05", "C05"), "engine": "planeA",
        "technique": "runtime monitoring: UBSan float-cast-overflow / integer traps attributed per input + exact per-step oracle on bit patterns",
        "text": "All 121 ordered rep pairs x factors: the <T> checkers and every spelling of the rep-changing conversion are executed on exhaustive 8/16-bit sources, per-step threshold neighbourhoods, nextafter walks around each target limit, NaN/inf/zeros/denormals and random patterns, under gcc and clang sanitizers in trap mode. Cleared inputs must convert without a trap to the exact (integral) or tolerance-bounded (floating) value; uncastable inputs must be reported lossy; for integral sources overflow may be reported only when a step really leaves its range.",
        "note": "Trusted: oracle in harness/vf_repconv.hh (128-bit integer steps; long double with stated ulp tolerances for floating paths); wide sources are sampled.",
    },
    "C12": {
        "module": ("vf.props.c12", "C12"), "engine": "planeA",
        "technique": "runtime monitoring: exhaustive sweep vs sieve, adversarial 64-bit sets vs deterministic Miller-Rabin oracle, 128-bit oracle + unsigned-overflow traps for modular helpers",
        "text": "is_prime is run on every n below 2^26 (2^30 thorough) against a segmented sieve and find_prime_factor below 2^24 (2^28); oracle-generated adversarial 64-bit sets and 2-adic false-square candidates are judged by an independent 12-base Miller-Rabin; the five modular helpers run on boundary/random operands (both mul_mod paths, moduli above 2^63) under clang unsigned-integer-overflow traps so that any intermediate wrap-around is attributed to its operands.",
        "note": "Trusted: oracle code in harness/vf_numth.cc (no code shared with au/utility). 64-bit space sampled, not enumerated. A job that fails to return twice within a 20x time budget is reported as 'does not return'.",
    },
    "C02": {
        "module": ("vf.props.c02", "C02"), "engine": "planeB",
        "technique": "runtime trace monitoring: compile-time unit algebra reified into JSONL events, judged by an exact Fraction-exponent model; cross-configuration trace equality",
        "text": "Seeded random unit-expression trees over all library units, prefixes, magnitudes, powers and roots are reified (type id, dimension and magnitude exponent vectors) in several groupings and spellings; an exact model recomputes every event, checks type identity inside each algebraic equivalence class, equivalence <=> equal (dim, mag), unit_ratio, and that traces are byte-identical across compilers and language levels on a slice.",
        "note": "Trusted: vf/model.py (exact exponent arithmetic), the reifier reading detail::DimT/MagT packs, leaf (dim, mag) taken from the library itself. Bounded tree depth; documented ordering exclusion filtered.",
    },
    "C13": {
        "module": ("vf.props.c13", "C13"), "engine": "planeA+planeC",
        "technique": "runtime monitoring: differential execution of Quantity operators vs raw operators on laundered operands (UBSan trap attribution), bit-pattern round trips, reified layout facts; compile-outcome probes per operator/rep/configuration",
        "text": "Layout facts are read out at run time for every library unit and generated compound units x 11 reps; every same-unit operator is executed on exhaustive 8-bit operand pairs and boundary/random wider operands and compared (value and result rep) with the raw operator in the same TU; in(unit) round trips are compared bit-for-bit over float/double/long double/int patterns; each operator is also compiled on each rep under several compiler/standard configurations with the raw operator as control.",
        "note": "Trusted: the raw C++ operators as reference, the 128-bit raw-UB oracle, gcc/clang diagnostics parsing for the probe half (re-checked in isolation).",
    },
    "C19": {
        "module": ("vf.props.c19", "C19"), "engine": "planeA+planeC",
        "technique": "runtime monitoring: expressions mixing ZERO and quantities executed on laundered values and compared with the raw expression on 0 (UBSan trap attribution); compile-outcome probes for the QuantityPoint refusals",
        "text": "For sampled library and generated units x 11 reps, all 8/16-bit values and boundary/NaN/inf/-0.0/denormal/random wider values go through 23 expressions mixing ZERO with the quantity (six comparisons both ways, +, -, +=, -=, construction, assignment, min/max, conversion to every arithmetic type and chrono durations) and are compared with the raw expression; probes check that ZERO is refused for QuantityPoint in 9 syntactic positions (with the Quantity form as control) in several configurations.",
        "note": "Trusted: raw C++ expressions as reference; diagnostics parsing with isolation re-check for the refusal half.",
    },
    "C08": {
        "module": ("vf.props.c08", "C08"), "engine": "planeA",
        "technique": "runtime monitoring: mixed-unit operators executed under sanitizer traps and judged by an exact 128-bit rational oracle; differential C++14/C++20 builds (operator<=>)",
        "text": "Generated unit pairs with integer, reciprocal and general rational ratios x same-signedness rep pairs: the six comparisons, <=> (C++20 build), +, - and % run on exhaustive 8-bit operands, threshold/equal-magnitude boundaries and random values; every in-domain result is compared with the exact rational order / sum / difference / truncated remainder in the independently spelled common unit; floating reps judged with an ulp budget.",
        "note": "Trusted: 128-bit oracle in harness/vf_mixed.hh; which pairs compile follows the C06 policy model and is corrected by the compiler's verdict.",
    },
    "C06": {
        "module": ("vf.props.c06", "C06"), "engine": "planeC+planeA",
        "technique": "compile-outcome monitoring: static_assert(trait == documented predicate) probes with per-line diagnostic attribution and isolation re-check; runtime execution of every permitted integral conversion on [-2147, 2147] under sanitizer traps",
        "text": "For all pairs of the 10 arithmetic reps and a ratio grid straddling each rep's 2147-threshold and maximum (including magnitudes no type can hold and irrational ratios), is_convertible / is_constructible / overload resolution / common_type are asked inside static_asserts against the documented predicate, so a wrong answer and a hard error are both observed; copy-initialisation, unit-only .as/.in and mixed comparison/addition are probed for accept/reject; every permitted integral conversion is then executed for all representable x in [-2147, 2147] and compared with x*k.",
        "note": "Trusted: the predicate as written in the property statement (vf/props/c06.py::permitted), gcc/clang diagnostic attribution (each disagreement re-compiled alone). Totality is a compile-time fact: observed on the compiler's execution, not inside an Au execution.",
    },
    "C01": {
        "module": ("vf.props.c01", "C01"), "engine": "planeC",
        "technique": "compile-outcome monitoring: generated one-line probes per (unit pair, operation), diagnostics attributed per probe, same-dimension controls, isolation re-check",
        "text": "For sampled (thorough: all) pairs of dimension classes drawn from the library units and generated compound units, every operation named in the property is compiled as its own probe and must be rejected; the same operation text with same-dimension operands and permitted reps must be accepted; trait questions are asked inside static_asserts so both a wrong answer and a hard error are seen. Run under two (thorough: six) compiler/standard configurations.",
        "note": "The rejection half is a compile-time fact and is observed on the compiler's execution over the real headers, not inside an Au execution. Dimensions come from the library's reified leaves + the exact model.",
    },
    "C11": {
        "module": ("vf.props.c11", "C11"), "engine": "planeB+planeC",
        "technique": "runtime trace monitoring: representable_in / get_value / classification reified per (magnitude, type) and judged by exact rational and 130-digit decimal arithmetic; compile-outcome probes for the must-not-compile half",
        "text": "Structured and random magnitudes (integers straddling every type limit, primes up to 2^64-59, powers around FLT/DBL/LDBL max/min, roots, pi powers) are reified for 8 integer and 3 floating types: the exponent vector, is_integer/is_rational/numerator/denominator/integer_part, representable_in and the guarded get_value (constant-evaluated and at run time) are compared with an exact model; every not-representable (magnitude, type) becomes a get_value reject probe; mag<a>()*mag<b>() == mag<a*b>() type identity is checked on a slice.",
        "note": "Trusted: vf/model.py + decimal/Fraction arithmetic with stated ulp tolerances; x87 80-bit long double.",
    },
    "C16": {
        "module": ("vf.props.c16", "C16"), "engine": "planeB+planeC",
        "technique": "runtime trace monitoring: can_store_value_in and guarded as/in/implicit values of constants reified per (constant, unit, type) and judged by exact arithmetic; composition results reified (unit + stored number); compile-outcome probes for the must-not-compile half",
        "text": "Library constants and make_constant of generated units are paired with target units whose ratio to the constant is known exactly (type-limit-straddling integers, rationals, huge primes, irrational, float-limit powers of ten); for all 11 types can_store_value_in and the three conversion spellings are compared with the exact ratio; each not-representable case is compiled as a reject probe for as<T>, in<T> and implicit conversion; products/quotients with numbers, quantities, makers, magnitudes and other constants must keep the stored number and yield the model unit.",
        "note": "Trusted: vf/model.py, decimal/Fraction oracle with the C11 tolerances; constants' own units are read from the library (no claim is made about their numeric definitions).",
    },
    "C07": {
        "module": ("vf.props.c07", "C07"), "engine": "planeB",
        "technique": "runtime trace monitoring: CommonUnitT of every permutation reified (type id, magnitude, input/common ratios) and judged by an exact base-wise GCD model",
        "text": "Generated lists of 2-4 same-dimension units (library, anonymous and named scaled units, rational scales up to 2^40, pi on both sides, plus irrational-ratio lists) are reified under every permutation and a repetition variant; the model checks that each input/common ratio is a positive integer, that the ratios are jointly coprime (equals the exact GCD magnitude), that an input equal to the GCD unit is the result type, that the type is permutation-invariant, that nesting is quantity-equivalent and that std::common_type is symmetric; a slice is compared across compilers.",
        "note": "Trusted: vf/model.py exponent arithmetic; leaf magnitudes are read from the library.",
    },
    "C10": {
        "module": ("vf.props.c10", "C10"), "engine": "planeB",
        "technique": "runtime monitoring: point conversions to the common point unit executed for x in {0,1,7}, affine map recovered and compared with the exact rational model; type identity under permutation via reified traces",
        "text": "Pairs/triples of temperature point units (library + generated rational scale and origin) are combined in every ordering; the common point unit's type must be order-independent; converting x = 0, 1, 7 from each input must give m*x + b with m a positive integer equal to the exact scale ratio and b a non-negative integer consistent with one common origin; an input that already has that scale and origin must be the result type.",
        "note": "Trusted: Fraction model of (scale, origin) written from the unit definitions; library lists the policy refuses are counted, not judged.",
    },
    "C18": {
        "module": ("vf.props.c18", "C18"), "engine": "planeB",
        "technique": "runtime monitoring under AddressSanitizer: every label byte read and the string parsed back by a grammar-based oracle into (dimension, magnitude), compared with the exact model; IToA/UIToA and operator<< vs decimal rendering",
        "text": "Labels of generated unit expressions (C02 generator, integer/rational scalings of every decimal length up to 2^64-1, labeled/unlabeled strong typedefs, prefixes, common units) are read byte by byte under ASan (sizeof == strlen+1, NUL terminated, trait == function form), parsed with the documented grammar over the labels of the named units involved, and every reading must denote the unit's exact dimension and magnitude; unlabeled units must print the generic marker; IToA/UIToA boundary and random arguments and streaming of every rep are compared with decimal text; labels must be identical across compilers.",
        "note": "Trusted: vf/props/c18.py parser (accepts any reading that matches, so ambiguity can only lose detection), vf/model.py. Factor order inside a product is unspecified and therefore not compared textually.",
    },
    "C17": {
        "module": ("vf.props.c17", "C17"), "engine": "planeA",
        "technique": "runtime monitoring: differential execution against std::chrono's own operators on laundered counts under sanitizer traps; reified unit facts vs exact model",
        "text": "For 62 duration types (4 reps x 14 periods + the six named typedefs) as_quantity / implicit back-conversion / as_chrono_duration must preserve the count bit-for-bit, the rep, and the unit seconds x Period (reified and compared with the exact ratio, reduced period checked); sampled ordered pairs run the six comparisons (both operand orders), + and - against chrono's own answers wherever a 128-bit oracle shows chrono does not overflow; implicit acceptance of a duration is compared with that of its corresponding quantity.",
        "note": "Trusted: libstdc++ chrono as reference, 128-bit overflow oracle; pairs the library's policy rejects are dropped, not judged.",
    },
}
