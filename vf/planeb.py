"""Plane B plumbing: emit a reifier TU (one statement per `#line`-tagged probe), build, run, parse
events; statements that the compiler rejects are attributed, dropped and reported back."""
import hashlib
import json
import os

from . import ccmon, core, model


def unit_includes(units):
    hs = sorted({u.header for u in units.values()})
    return "\n".join(f'#include "{h}"' for h in hs)


PREAMBLE_TMPL = r'''
#include "au/au.hh"
%(unit_includes)s
%(extra_includes)s
#include "vf_reify.hh"
%(decls)s
'''


def emit(stmts, units, decls="", extra_includes=""):
    """stmts: list of (id:int, code:str one line).  Each goes into its own function so that a
    rejected statement cannot poison its neighbours."""
    out = [PREAMBLE_TMPL % {"unit_includes": unit_includes(units), "decls": decls, "extra_includes": extra_includes}]
    for sid, code in stmts:
        assert "\n" not in code
        out.append(f'#line {sid * 10} "vfprobe"')
        out.append(f"static void vf_s{sid}() {{ using namespace au; {code} }}")
    out.append('#line 1 "vftail"')
    out.append("int main() {")
    for sid, _ in stmts:
        out.append(f"  vf_s{sid}();")
    out.append('  printf("{\\"ev\\":\\"done\\"}\\n");')
    out.append("  return 0;")
    out.append("}")
    return "\n".join(out) + "\n"


def build_run(tag, stmts, units, flavour="G_O0", std="c++14", decls="", extra_includes="", timeout=1800, extra_flags=""):
    """-> (events, rejected: {sid: [msgs]}, stdout_md5)"""
    d = core.subdir("planeb")
    src = os.path.join(d, f"{tag}.cc")
    exe = os.path.join(d, f"{tag}.exe")
    stmts = list(stmts)
    rejected = {}
    last_err = ""

    def isolate(cands):
        """compile every statement alone (-fsyntax-only): exact rejection set even when diagnostics are deduplicated per specialisation"""
        pre = PREAMBLE_TMPL % {"unit_includes": unit_includes(units), "decls": decls, "extra_includes": extra_includes}
        comp, flags = core.FLAVOURS[flavour]

        def one(st):
            sid, code = st
            rc, rej, loose = ccmon.compile_batch(pre, [(sid, f"static void vf_s{sid}() {{ using namespace au; {code} }}")], comp, std, f"{tag}_iso{sid}", extra_flags=extra_flags, timeout=timeout)
            return sid, rc, (rej.get(sid) or loose or ["?"])
        return {sid: msgs[:3] for sid, rc, msgs in core.pmap(one, cands) if rc != 0}

    for attempt in range(4):
        core.write(src, emit(stmts, units, decls, extra_includes))
        rc, se = core.build(src, exe, flavour, std=std, timeout=timeout, extra_flags=extra_flags)
        if rc == 0:
            break
        if rc == -9:
            raise core.Inconclusive(f"plane B TU {tag} compile timeout")
        by, loose = ccmon.attribute(se)
        bad = {k // 10: v for k, v in by.items()}
        last_err = next((l for l in se.splitlines() if ": error:" in l), "")[:300]
        if attempt >= 1 or not bad:
            # diagnostics of a class template fire once per specialisation, so batch attribution can keep finding one more
            # offender per round (or none at all): settle it by compiling the remaining statements one by one
            bad = isolate(stmts)
            if not bad:
                raise core.Inconclusive(f"plane B TU {tag} ({flavour} {std}) fails as a whole although every statement compiles alone: {last_err}")
        rejected.update(bad)
        stmts = [s for s in stmts if s[0] not in bad]
    else:
        raise core.Inconclusive(f"plane B TU {tag} still fails to compile after dropping statements; last error: {last_err}")
    env = dict(os.environ)
    env["ASAN_OPTIONS"] = "detect_leaks=0:abort_on_error=0:exitcode=66"
    rc, so, se = core.sh([exe], timeout=600, env=env)
    try:
        os.unlink(exe)
        os.unlink(src)
    except OSError:
        pass
    if rc != 0 or '"ev":"done"' not in so:
        return None, rejected, None, (rc, se[-1500:])
    events = []
    for l in so.splitlines():
        if l.startswith("{"):
            events.append(json.loads(l))
    return events, rejected, hashlib.md5(so.encode()).hexdigest(), None


def leaf_table(units, flavour="G_O0", std="c++14"):
    """Reify every library unit: TypeName -> (dim, mag, tid)."""
    stmts = [(i + 1, f'vfy::reify_unit<au::{u.type}>("{u.type}");') for i, u in enumerate(units.values())]
    events, rejected, _, err = build_run(f"leaves_{flavour}_{std.replace('+', 'p')}", stmts, units, flavour, std)
    if err or rejected:
        raise core.Inconclusive(f"leaf table could not be reified: {err or rejected}")
    out = {}
    for e in events:
        if e["ev"] == "unit":
            out[e["tag"]] = (model.parse_dim_event(e["dim"]), model.parse_mag_event(e["mag"]), e["tid"])
    return out
