"""Exact model of Au's unit algebra: dimensions and magnitudes as exponent maps over Fractions,
unit-expression trees, their C++ spellings, and the library's unit table (scanned from the tree
under test so that it always matches what is being compiled)."""
import glob
import os
import re
from fractions import Fraction

from . import core, numth

# ---------------------------------------------------------------------------------------------
# exponent maps


def emul(a, b):
    out = dict(a)
    for k, v in b.items():
        nv = out.get(k, 0) + v
        if nv == 0:
            out.pop(k, None)
        else:
            out[k] = nv
    return out


def epow(a, f):
    f = Fraction(f)
    if f == 0:
        return {}
    return {k: v * f for k, v in a.items()}


def einv(a):
    return epow(a, -1)


def ekey(a):
    return tuple(sorted(((str(k), v.numerator, v.denominator) for k, v in a.items())))


def mag_of_int(n):
    return {p: Fraction(k) for p, k in numth.factor(n).items()} if n > 1 else {}


def mag_of_fraction(fr):
    fr = Fraction(fr)
    return emul(mag_of_int(fr.numerator), einv(mag_of_int(fr.denominator)))


def mag_is_rational(m):
    return all(k != "pi" and v.denominator == 1 for k, v in m.items())


def mag_is_integer(m):
    return all(k != "pi" and v.denominator == 1 and v > 0 for k, v in m.items())


def mag_to_fraction(m):
    assert mag_is_rational(m)
    out = Fraction(1)
    for k, v in m.items():
        out *= Fraction(k) ** int(v)
    return out


def parse_mag_event(lst):
    """[[base, num, den], ...] as printed by the reifier -> exponent map"""
    out = {}
    for b, n, d in lst:
        key = "pi" if b == "pi" else int(b)
        out[key] = Fraction(n, d)
    return out


def parse_dim_event(lst):
    return {int(b): Fraction(n, d) for b, n, d in lst}


# ---------------------------------------------------------------------------------------------
# library unit table (scanned)

PREFIXES = [  # (type template, applier, power base, exponent, symbol)
    ("Quetta", "quetta", 10, 30, "Q"), ("Ronna", "ronna", 10, 27, "R"), ("Yotta", "yotta", 10, 24, "Y"), ("Zetta", "zetta", 10, 21, "Z"),
    ("Exa", "exa", 10, 18, "E"), ("Peta", "peta", 10, 15, "P"), ("Tera", "tera", 10, 12, "T"), ("Giga", "giga", 10, 9, "G"),
    ("Mega", "mega", 10, 6, "M"), ("Kilo", "kilo", 10, 3, "k"), ("Hecto", "hecto", 10, 2, "h"), ("Deka", "deka", 10, 1, "da"),
    ("Deci", "deci", 10, -1, "d"), ("Centi", "centi", 10, -2, "c"), ("Milli", "milli", 10, -3, "m"), ("Micro", "micro", 10, -6, "u"),
    ("Nano", "nano", 10, -9, "n"), ("Pico", "pico", 10, -12, "p"), ("Femto", "femto", 10, -15, "f"), ("Atto", "atto", 10, -18, "a"),
    ("Zepto", "zepto", 10, -21, "z"), ("Yocto", "yocto", 10, -24, "y"), ("Ronto", "ronto", 10, -27, "r"), ("Quecto", "quecto", 10, -30, "q"),
    ("Yobi", "yobi", 2, 80, "Yi"), ("Zebi", "zebi", 2, 70, "Zi"), ("Exbi", "exbi", 2, 60, "Ei"), ("Pebi", "pebi", 2, 50, "Pi"),
    ("Tebi", "tebi", 2, 40, "Ti"), ("Gibi", "gibi", 2, 30, "Gi"), ("Mebi", "mebi", 2, 20, "Mi"), ("Kibi", "kibi", 2, 10, "Ki"),
]
PREFIX_BY_NAME = {p[0]: p for p in PREFIXES}


def prefix_mag(pname):
    _, _, base, e, _ = PREFIX_BY_NAME[pname]
    return epow(mag_of_int(base), e)


class LibUnit:
    def __init__(self, header, type_, maker, singular, symbol, pt, label):
        self.header, self.type, self.maker, self.singular, self.symbol, self.pt, self.label = header, type_, maker, singular, symbol, pt, label

    def __repr__(self):
        return f"LibUnit({self.type})"


def scan_units():
    """Reads au/code/au/units/*.hh of the tree under test."""
    out = []
    for f in sorted(glob.glob(os.path.join(core.INC, "au", "units", "*.hh"))):
        base = os.path.basename(f)
        if base.endswith("_fwd.hh"):
            continue
        s = open(f).read()
        structs = [x for x in re.findall(r"struct (\w+)\s*:\s", s) if not x.endswith("Label")]
        makers = dict((t, n) for n, t in re.findall(r"constexpr auto (\w+) = QuantityMaker<(\w+)>", s))
        sing = dict((t, n) for n, t in re.findall(r"constexpr auto (\w+) = SingularNameFor<(\w+)>", s))
        sym = dict((t, n) for n, t in re.findall(r"constexpr auto (\w+) = SymbolFor<(\w+)>", s))
        pts = dict((t, n) for n, t in re.findall(r"constexpr auto (\w+) = QuantityPointMaker<(\w+)>", s))
        labels = re.findall(r'label\[\] = "((?:[^"\\]|\\.)*)"', s)
        for t in structs:
            if t not in makers:
                continue
            mk = makers[t]
            if t in ("Celsius", "Fahrenheit"):
                mk = {"Celsius": "celsius_qty", "Fahrenheit": "fahrenheit_qty"}[t]
            out.append(LibUnit("au/units/" + base, t, mk, sing.get(t), sym.get(t), pts.get(t), labels[0] if labels and t != "Rankines" else None))
    # a unit header from which no unit could be read would silently shrink every workload built on this table
    seen = {u.header for u in out}
    missed = [os.path.basename(f) for f in sorted(glob.glob(os.path.join(core.INC, "au", "units", "*.hh")))
              if not f.endswith("_fwd.hh") and "au/units/" + os.path.basename(f) not in seen]
    if missed:
        raise core.Inconclusive(f"unit table scan: no unit recognised in {missed} (the scanner's patterns need updating)")
    return out


# ---------------------------------------------------------------------------------------------
# unit expression trees
#   ('leaf', TypeName)
#   ('mul', a, b) ('div', a, b)
#   ('pow', a, n)         integer power
#   ('root', a, n)        n-th root
#   ('alias', name, a)    squared cubed inverse sqrt cbrt
#   ('scale', a, m, op)   op in '*','/' ; m is a magnitude tree
#   ('prefix', PName, a)
# magnitude trees: ('int', n) ('pi',) ('mpow', m, n) ('mroot', m, n) ('mmul', a, b) ('mdiv', a, b)

ALIAS = {"squared": Fraction(2), "cubed": Fraction(3), "inverse": Fraction(-1), "sqrt": Fraction(1, 2), "cbrt": Fraction(1, 3)}


def mag_eval(m):
    k = m[0]
    if k == "int":
        return mag_of_int(m[1])
    if k == "pi":
        return {"pi": Fraction(1)}
    if k == "mpow":
        return epow(mag_eval(m[1]), m[2])
    if k == "mroot":
        return epow(mag_eval(m[1]), Fraction(1, m[2]))
    if k == "mmul":
        return emul(mag_eval(m[1]), mag_eval(m[2]))
    if k == "mdiv":
        return emul(mag_eval(m[1]), einv(mag_eval(m[2])))
    raise ValueError(m)


def mag_spell(m):
    k = m[0]
    if k == "int":
        return f"au::mag<{m[1]}ull>()"
    if k == "pi":
        return "au::Magnitude<au::Pi>{}"
    if k == "mpow":
        return f"au::pow<{m[2]}>({mag_spell(m[1])})"
    if k == "mroot":
        return f"au::root<{m[2]}>({mag_spell(m[1])})"
    if k == "mmul":
        return f"({mag_spell(m[1])} * {mag_spell(m[2])})"
    if k == "mdiv":
        return f"({mag_spell(m[1])} / {mag_spell(m[2])})"
    raise ValueError(m)


class Ev:
    """Model value of a unit expression: dim, mag, and the canonical identity used for the
    'algebraically equal products/powers of the same named units produce the identical type' clause:
    bases = {leaf identity -> exponent}, scale = magnitude applied on top of the product of bases."""

    def __init__(self, dim, mag, bases, scale):
        self.dim, self.mag, self.bases, self.scale = dim, mag, bases, scale

    def key(self):
        return (tuple(sorted(((k, v.numerator, v.denominator) for k, v in self.bases.items()))), ekey(self.scale))

    def dm_key(self):
        return (ekey(self.dim), ekey(self.mag))


def _atom(e):
    """An anonymous scaled unit (`U * m`) that becomes a factor of a product or the base of a power is a unit in its own
    right there: the library keeps `ScaledUnit<U, m>` as one base of the product (it neither distributes the scale factor
    nor cancels U against other factors), and the statement's type-identity clause speaks of products/powers of the same
    *units*.  So for identity purposes it is an atomic base named by its own canonical key."""
    if not e.scale:
        return e
    return Ev(e.dim, e.mag, {f"Scaled<{e.key()}>": Fraction(1)}, {})


def ev(tree, leaves):
    """leaves: TypeName -> (dim, mag)"""
    k = tree[0]
    if k == "leaf":
        d, m = leaves[tree[1]]
        return Ev(dict(d), dict(m), {tree[1]: Fraction(1)}, {})
    if k in ("mul", "div"):
        a, b = _atom(ev(tree[1], leaves)), _atom(ev(tree[2], leaves))
        s = 1 if k == "mul" else -1
        return Ev(emul(a.dim, epow(b.dim, s)), emul(a.mag, epow(b.mag, s)), emul(a.bases, epow(b.bases, s)), {})
    if k in ("pow", "root", "alias"):
        a = _atom(ev(tree[1] if k != "alias" else tree[2], leaves))
        f = Fraction(tree[2]) if k == "pow" else Fraction(1, tree[2]) if k == "root" else ALIAS[tree[1]]
        return Ev(epow(a.dim, f), epow(a.mag, f), epow(a.bases, f), {})
    if k == "scale":
        a = ev(tree[1], leaves)
        m = mag_eval(tree[2])
        if tree[3] == "/":
            m = einv(m)
        return Ev(a.dim, emul(a.mag, m), a.bases, emul(a.scale, m))
    if k == "prefix":
        a = ev(tree[2], leaves)
        ident = f"{tree[1]}<{a.key()}>"
        return Ev(a.dim, emul(a.mag, prefix_mag(tree[1])), {ident: Fraction(1)}, {})
    raise ValueError(tree)


def leaf_idents(tree, leaves):
    """All named-leaf identities (library units and prefixed units) occurring in the tree, with their (dim, mag)."""
    out = {}
    k = tree[0]
    if k == "leaf":
        e = ev(tree, leaves)
        out[tree[1]] = e.dm_key()
    elif k in ("mul", "div"):
        out.update(leaf_idents(tree[1], leaves))
        out.update(leaf_idents(tree[2], leaves))
    elif k in ("pow", "root", "scale"):
        out.update(leaf_idents(tree[1], leaves))
    elif k == "alias":
        out.update(leaf_idents(tree[2], leaves))
    elif k == "prefix":
        e = ev(tree, leaves)
        out[next(iter(e.bases))] = e.dm_key()
        out.update(leaf_idents(tree[2], leaves))
    return out


def has_ordering_tie(tree, leaves):
    """Documented exclusion: two distinct named units with identical dimension and magnitude in one
    product.  Origin is ignored, which only makes the filter more conservative."""
    ids = leaf_idents(tree, leaves)
    seen = {}
    for ident, dm in ids.items():
        if dm in seen and seen[dm] != ident:
            return True
        seen[dm] = ident
    return False


# ---- spellings ---------------------------------------------------------------------------------
class Unspellable(Exception):
    pass


def spell(tree, style, units):
    """C++ expression whose AssociatedUnitT is the unit.  style: 'unit' | 'maker' | 'symbol' | 'constant' | 'mixed'"""
    k = tree[0]
    if k == "leaf":
        u = units[tree[1]]
        if style == "unit":
            return f"au::{u.type}{{}}"
        if style == "maker":
            return f"au::{u.maker}"
        if style == "symbol":
            if not u.symbol:
                raise Unspellable()
            return f"au::symbols::{u.symbol}"
        if style == "constant":
            return f"au::make_constant(au::{u.type}{{}})"
        if style == "singular":
            if not u.singular:
                raise Unspellable()
            return f"au::{u.singular}"
        raise ValueError(style)
    if k in ("mul", "div"):
        op = "*" if k == "mul" else "/"
        if style == "singular":
            if k == "div":
                raise Unspellable()
            return f"({spell(tree[1], style, units)} * {spell(tree[2], style, units)})"
        if style == "maker" and k == "div":
            # use the documented `makers / singular_name` form when the divisor has one
            try:
                return f"({spell(tree[1], style, units)} / {spell(tree[2], 'singular', units)})"
            except Unspellable:
                pass
        return f"({spell(tree[1], style, units)} {op} {spell(tree[2], style, units)})"
    if k == "pow":
        return f"pow<{tree[2]}>({spell(tree[1], style, units)})"
    if k == "root":
        if style == "singular":
            raise Unspellable()
        return f"root<{tree[2]}>({spell(tree[1], style, units)})"
    if k == "alias":
        if style == "singular" and tree[1] in ("sqrt", "cbrt"):
            raise Unspellable()
        return f"au::{tree[1]}({spell(tree[2], style, units)})"
    if k == "scale":
        if style == "singular":
            raise Unspellable()
        return f"({spell(tree[1], style, units)} {tree[3]} {mag_spell(tree[2])})"
    if k == "prefix":
        p = PREFIX_BY_NAME[tree[1]]
        if style == "unit":
            return f"au::{p[0]}<decltype({spell(tree[2], style, units)})>{{}}"
        if style == "constant":
            return f"au::make_constant(au::{p[1]}(au::AssociatedUnitT<decltype({spell(tree[2], style, units)})>{{}}))"
        return f"au::{p[1]}({spell(tree[2], style, units)})"
    raise ValueError(tree)


def headers_of(tree, units, acc=None):
    acc = set() if acc is None else acc
    k = tree[0]
    if k == "leaf":
        acc.add(units[tree[1]].header)
    elif k in ("mul", "div"):
        headers_of(tree[1], units, acc)
        headers_of(tree[2], units, acc)
    elif k in ("pow", "root", "scale"):
        headers_of(tree[1], units, acc)
    elif k in ("alias", "prefix"):
        headers_of(tree[2], units, acc)
    return acc


# ---- random generation --------------------------------------------------------------------------
MAG_INTS = [2, 3, 5, 7, 10, 12, 60, 100, 254, 1000, 5280, 7919, 2 ** 10, 10 ** 6, 2 ** 31 - 1, 2 ** 32 - 5, 65537, 9, 16, 27, 1024, 360, 9192631770,
            # single literals that need more than 32 bits while the library factors them (powers of ten beyond 10^9 included)
            10 ** 10, 7 * 10 ** 11, 10 ** 15, 2 ** 40, 10 ** 18, 2 ** 63]


def gen_mag(rnd, depth=0):
    r = rnd.random()
    if depth >= 2 or r < 0.55:
        if rnd.random() < 0.15:
            return ("pi",)
        return ("int", rnd.choice(MAG_INTS))
    if r < 0.7:
        return ("mpow", gen_mag(rnd, depth + 1), rnd.choice([2, 3, -1, -2, 4]))
    if r < 0.8:
        return ("mroot", gen_mag(rnd, depth + 1), rnd.choice([2, 3]))
    if r < 0.9:
        return ("mmul", gen_mag(rnd, depth + 1), gen_mag(rnd, depth + 1))
    return ("mdiv", gen_mag(rnd, depth + 1), gen_mag(rnd, depth + 1))


def gen_tree(rnd, leaf_names, depth, allow_prefix=True):
    r = rnd.random()
    if depth <= 0 or r < 0.18:
        return ("leaf", rnd.choice(leaf_names))
    if r < 0.42:
        return ("mul", gen_tree(rnd, leaf_names, depth - 1), gen_tree(rnd, leaf_names, depth - 1))
    if r < 0.60:
        return ("div", gen_tree(rnd, leaf_names, depth - 1), gen_tree(rnd, leaf_names, depth - 1))
    if r < 0.68:
        return ("pow", gen_tree(rnd, leaf_names, depth - 1), rnd.choice([2, 3, -1, -2, 4, -3]))
    if r < 0.72:
        return ("root", gen_tree(rnd, leaf_names, depth - 1), rnd.choice([2, 3]))
    if r < 0.80:
        return ("alias", rnd.choice(list(ALIAS)), gen_tree(rnd, leaf_names, depth - 1))
    if r < 0.92:
        return ("scale", gen_tree(rnd, leaf_names, depth - 1), gen_mag(rnd), rnd.choice("*/"))
    if allow_prefix:
        return ("prefix", rnd.choice(PREFIXES)[0], gen_tree(rnd, leaf_names, min(depth - 1, 1)))
    return ("leaf", rnd.choice(leaf_names))


def flatten(tree, sign=1):
    """Top-level product structure: list of (factor tree, +1/-1)."""
    if tree[0] == "mul":
        return flatten(tree[1], sign) + flatten(tree[2], sign)
    if tree[0] == "div":
        return flatten(tree[1], sign) + flatten(tree[2], -sign)
    return [(tree, sign)]


def reassociate(tree, rnd):
    """A model-equal variant: shuffle the top-level factors and rebuild with random grouping;
    recursively does the same inside powers/scalings."""
    k = tree[0]
    if k in ("mul", "div"):
        fs = [(reassociate(t, rnd), s) for t, s in flatten(tree)]
        rnd.shuffle(fs)
        pos = [t for t, s in fs if s > 0]
        neg = [t for t, s in fs if s < 0]

        def build(lst):
            if len(lst) == 1:
                return lst[0]
            i = rnd.randrange(1, len(lst))
            return ("mul", build(lst[:i]), build(lst[i:]))
        if not pos:
            # 1/x forms: inverse of the product of the negatives
            return ("alias", "inverse", build(neg)) if rnd.random() < 0.5 else ("pow", build(neg), -1)
        if not neg:
            return build(pos)
        if rnd.random() < 0.5 or len(neg) == 1:
            return ("div", build(pos), build(neg))
        # a / b / c
        out = build(pos)
        for t in neg:
            out = ("div", out, t)
        return out
    if k == "pow":
        inner = reassociate(tree[1], rnd)
        if tree[2] == 2 and rnd.random() < 0.5:
            return ("alias", "squared", inner)
        if tree[2] == 4 and rnd.random() < 0.5:
            return ("pow", ("pow", inner, 2), 2)
        return ("pow", inner, tree[2])
    if k == "root":
        return ("root", reassociate(tree[1], rnd), tree[2])
    if k == "alias":
        inner = reassociate(tree[2], rnd)
        if tree[1] == "cubed" and rnd.random() < 0.5:
            return ("pow", inner, 3)
        if tree[1] == "sqrt" and rnd.random() < 0.5:
            return ("root", inner, 2)
        return ("alias", tree[1], inner)
    if k == "scale":
        return ("scale", reassociate(tree[1], rnd), tree[2], tree[3])
    if k == "prefix":
        return tree  # a prefixed unit is a named type of its exact argument type: keep it verbatim
    return tree


def count_leaves(tree):
    k = tree[0]
    if k == "leaf":
        return 1
    if k in ("mul", "div"):
        return count_leaves(tree[1]) + count_leaves(tree[2])
    if k in ("pow", "root", "scale"):
        return count_leaves(tree[1])
    return count_leaves(tree[2])


def max_exp_ok(e, limit=64):
    """keep exponents small so std::ratio arithmetic in the library stays far from overflow"""
    for mp in (e.dim, e.mag, e.bases, e.scale):
        for v in mp.values():
            if abs(v.numerator) > limit * 40 or v.denominator > 36:
                return False
    return True
