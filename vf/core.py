"""Core plumbing shared by every property check.

Everything here is stdlib-only.  Nothing is cached between runs: each check
creates its own scratch directory (outside /repo and /verif), rebuilds every
harness from the *current* working tree of the repository under test and removes
the scratch directory when it exits.
"""
import atexit
import concurrent.futures as cf
import hashlib
import json
import os
import random
import shutil
import subprocess
import sys
import tempfile
import time

VERIF = os.path.dirname(os.path.dirname(os.path.abspath(__file__)))
REPO = os.environ.get("VF_REPO", "/repo")
INC = os.path.join(REPO, "au", "code")
HARNESS = os.path.join(VERIF, "harness")
NPROC = int(os.environ.get("VF_JOBS", str(os.cpu_count() or 4)))

GXX = "g++"
CLANGXX = "clang++"

# ---------------------------------------------------------------------------
# Sanitizer build flavours (DESIGN.md 3.2).  "trap" = attribution flavour,
# "diag" = diagnostic flavour (recover + report hook), "asan" = ASan+UBSan fatal,
# "plain" = unsanitized -O2.
# ---------------------------------------------------------------------------
_G_CHECKS = "-fsanitize=undefined,float-cast-overflow"
_L_CHECKS = ("-fsanitize=undefined,float-cast-overflow,"
             "unsigned-integer-overflow,implicit-conversion -fno-sanitize=object-size")
_L_UBONLY = "-fsanitize=undefined,float-cast-overflow -fno-sanitize=object-size"

FLAVOURS = {
    # name: (compiler, flags)
    "G_trap": (GXX, f"-O1 -g -fno-omit-frame-pointer {_G_CHECKS} -fsanitize-undefined-trap-on-error"),
    "L_trap": (CLANGXX, f"-O1 -g -fno-omit-frame-pointer {_L_CHECKS} -fsanitize-trap=all"),
    "Lub_trap": (CLANGXX, f"-O1 -g -fno-omit-frame-pointer {_L_UBONLY} -fsanitize-trap=all"),
    "G_diag": (GXX, f"-O1 -g -fno-omit-frame-pointer {_G_CHECKS} -fsanitize-recover=all -DVF_DIAG=1"),
    "L_diag": (CLANGXX, f"-O1 -g -fno-omit-frame-pointer {_L_CHECKS} -fsanitize-recover=all -DVF_DIAG=1"),
    "G_asan": (GXX, f"-O1 -g -fno-omit-frame-pointer -fsanitize=address,undefined,float-cast-overflow -fno-sanitize-recover=all -DVF_ASAN=1"),
    "L_asan": (CLANGXX, f"-O1 -g -fno-omit-frame-pointer -fsanitize=address,undefined,float-cast-overflow -fno-sanitize=object-size -fno-sanitize-recover=all -DVF_ASAN=1"),
    "G_plain": (GXX, "-O2"),
    "L_plain": (CLANGXX, "-O2"),
    "G_O0": (GXX, "-O0"),
    "L_O0": (CLANGXX, "-O0"),
}

CONFIGS = [(c, s) for c in (GXX, CLANGXX) for s in ("c++14", "c++17", "c++20")]


class Inconclusive(Exception):
    """Harness failure / nothing observed: exit 2, never a violation."""


_scratch_root = None


def scratch():
    """Per-process scratch directory, removed at exit."""
    global _scratch_root
    if _scratch_root is None:
        base = os.environ.get("VF_TMP", tempfile.gettempdir())
        _scratch_root = tempfile.mkdtemp(prefix="vf_", dir=base)
        atexit.register(shutil.rmtree, _scratch_root, True)
    return _scratch_root


def subdir(name):
    p = os.path.join(scratch(), name)
    os.makedirs(p, exist_ok=True)
    return p


def sh(cmd, timeout=None, cwd=None, env=None, stdin=None):
    """Run argv; returns (rc, stdout, stderr).  rc=-9 on timeout."""
    try:
        p = subprocess.run(cmd, stdout=subprocess.PIPE, stderr=subprocess.PIPE, timeout=timeout,
                           cwd=cwd, env=env, input=stdin)
        return p.returncode, p.stdout.decode("utf-8", "replace"), p.stderr.decode("utf-8", "replace")
    except subprocess.TimeoutExpired as e:
        out = (e.stdout or b"").decode("utf-8", "replace")
        err = (e.stderr or b"").decode("utf-8", "replace")
        return -9, out, err


def compile_cmd(compiler, std, flags, src, out=None, syntax_only=False, extra_inc=(), no_repo_inc=False):
    cmd = [compiler, f"-std={std}"] + flags.split()
    if not no_repo_inc:
        cmd += ["-I", INC]
    cmd += ["-I", HARNESS]
    for i in extra_inc:
        cmd += ["-I", i]
    cmd += ["-w"]
    if syntax_only:
        cmd += ["-fsyntax-only"]
        cmd += ["-fmax-errors=0"] if "g++" in compiler and "clang" not in compiler else ["-ferror-limit=0"]
    else:
        cmd += ["-o", out]
    cmd += [src] if isinstance(src, str) else list(src)
    return cmd


def build(src, out, flavour="G_trap", std="c++14", extra_flags="", timeout=900, extra_inc=(), no_repo_inc=False):
    compiler, flags = FLAVOURS[flavour]
    cmd = compile_cmd(compiler, std, flags + " " + extra_flags, src, out, extra_inc=extra_inc, no_repo_inc=no_repo_inc)
    rc, so, se = sh(cmd, timeout=timeout)
    if rc == -9:  # wall-clock watchdog (loaded machine): one more attempt with a longer leash
        rc, so, se = sh(cmd, timeout=timeout * 4)
    return rc, se


def pmap(fn, items, workers=None):
    """Parallel map over threads (each item spawns subprocesses)."""
    items = list(items)
    if not items:
        return []
    with cf.ThreadPoolExecutor(max_workers=workers or NPROC) as ex:
        return list(ex.map(fn, items))


def write(path, text):
    os.makedirs(os.path.dirname(path), exist_ok=True)
    with open(path, "w") as f:
        f.write(text)
    return path


def seed_of():
    try:
        return int(os.environ.get("VERIF_SEED", "1"))
    except ValueError:
        return 1


def rng(*salt):
    h = hashlib.sha256(("|".join(str(s) for s in (seed_of(),) + salt)).encode()).digest()
    return random.Random(int.from_bytes(h[:8], "little"))


def sub_seed(*salt):
    h = hashlib.sha256(("|".join(str(s) for s in (seed_of(),) + salt)).encode()).digest()
    return int.from_bytes(h[:8], "little")


# ---------------------------------------------------------------------------
# Reach evidence (DESIGN.md 3.5): one harness TU rebuilt with clang source-based coverage, run on a reduced workload;
# reports, per header the property is anchored in, how many functions / lines / regions / branches the run executed.
# It is evidence that the workload reaches the mechanism; it never changes a verdict.
def anchored_headers(pid):
    try:
        for l in open(os.path.join(VERIF, "properties.jsonl")):
            p = json.loads(l)
            if p["id"] == pid:
                return [f for f in p["anchors"]["files"] if f.endswith(".hh")]
    except Exception:
        pass
    return []


def reach(chk, tu, arg_lists, std="c++14", extra_headers=(), is_file=False):
    try:
        d = subdir("reach")
        tag = hashlib.md5((chk.pid + str(len(tu))).encode()).hexdigest()[:8]
        src = tu if is_file else write(os.path.join(d, f"r{tag}.cc"), tu)
        exe = os.path.join(d, f"r{tag}.exe")
        cmd = compile_cmd(CLANGXX, std, "-O0 -g -fprofile-instr-generate -fcoverage-mapping", src, exe)
        rc, so, se = sh(cmd, timeout=900)
        if rc != 0:
            chk.notes["reach"] = {"error": "coverage build failed: " + se[:200]}
            return
        raws = []
        for i, args in enumerate(arg_lists):
            raw = os.path.join(d, f"r{tag}_{i}.profraw")
            rc, so, se = sh([exe] + [str(a) for a in args], timeout=900, env=dict(os.environ, LLVM_PROFILE_FILE=raw))
            if os.path.exists(raw):
                raws.append(raw)
        prof = os.path.join(d, f"r{tag}.profdata")
        rc, so, se = sh(["llvm-profdata-14", "merge", "-sparse"] + raws + ["-o", prof], timeout=300)
        heads = [os.path.join(REPO, h) for h in list(anchored_headers(chk.pid)) + list(extra_headers)]
        heads = [h for h in heads if os.path.exists(h)]
        rc, so, se = sh(["llvm-cov-14", "report", exe, f"-instr-profile={prof}"] + heads, timeout=300)
        out = {}
        for line in so.splitlines():
            f = line.split()
            if len(f) >= 13 and f[0].endswith(".hh"):
                reg, mreg, fn, mfn, ln, mln, br, mbr = int(f[1]), int(f[2]), int(f[4]), int(f[5]), int(f[7]), int(f[8]), int(f[10]), int(f[11])
                out[f[0]] = {"functions_executed": f"{fn - mfn}/{fn}", "lines_executed": f"{ln - mln}/{ln}", "regions_executed": f"{reg - mreg}/{reg}", "branches_executed": f"{br - mbr}/{br}"}
        chk.notes["reach"] = {"how": "one harness TU rebuilt with clang -fprofile-instr-generate -fcoverage-mapping and run on a reduced workload; instantiated code of the anchored headers only (code evaluated at compile time does not appear)",
                              "runs": len(raws), "per_header": out}
        for f_ in raws + [prof, exe]:
            try:
                os.unlink(f_)
            except OSError:
                pass
    except Exception as e:  # evidence only
        chk.notes["reach"] = {"error": str(e)[:200]}


# ---------------------------------------------------------------------------
# Verdict collection, known findings, evidence.
# ---------------------------------------------------------------------------
class Check:
    def __init__(self, pid, tier):
        self.pid = pid
        self.tier = tier
        self.seed = seed_of()
        self.t0 = time.time()
        self.violations = {}      # key -> detail dict (first witness)
        self.viol_count = {}      # key -> occurrences
        self.known_hits = {}      # key -> what
        self.leads = {}
        self.cov = {"evaluations": 0, "distinct_nontrivial": 0, "rule": "", "samples": []}
        self.assumptions = []
        self.notes = {}
        self.inconclusive = []
        kf = os.path.join(VERIF, "known_findings.json")
        self.known = []
        if os.path.exists(kf):
            data = json.load(open(kf))
            self.known = [e for e in data.get("known", []) if e.get("property") == pid]

    # -- recording --------------------------------------------------------
    def violation(self, key, **detail):
        """key: canonical string identifying the failing input / call site."""
        for e in self.known:
            if e["key"] == key:
                self.known_hits.setdefault(key, e.get("what", key))
                return
        self.viol_count[key] = self.viol_count.get(key, 0) + 1
        if key not in self.violations:
            self.violations[key] = detail

    def lead(self, key, **detail):
        if key not in self.leads and len(self.leads) < 200:
            self.leads[key] = detail

    def add_evals(self, n, nontrivial=0):
        self.cov["evaluations"] += int(n)
        self.cov["distinct_nontrivial"] += int(nontrivial)

    def sample(self, s, cap=12):
        if len(self.cov["samples"]) < cap:
            self.cov["samples"].append(s)

    def fail_inconclusive(self, why):
        self.inconclusive.append(why)

    # -- finishing --------------------------------------------------------
    def finish(self):
        wall = time.time() - self.t0
        # an instance dropped because of an error inside the harness itself is a harness bug, not the library's policy at work
        rej = self.notes.get("rejected_by_library")
        if isinstance(rej, list):
            hb = [r for r in rej if isinstance(r, dict) and HARNESS in str(r.get("err", ""))]
            if hb:
                self.fail_inconclusive(f"{len(hb)} instance(s) were dropped because of errors in the harness itself: {str(hb[0].get('err'))[:160]}")
        ev = {
            "property_id": self.pid,
            "tier": self.tier,
            "seed": self.seed,
            "level": "exploration",
            "coverage": dict(self.cov),
            "assumptions": self.assumptions,
            "wall_s": round(wall, 2),
            "violations": len(self.violations),
        }
        ev["coverage"].update(self.notes)
        ev["coverage"]["repo"] = REPO
        ev["coverage"]["known_findings_hit"] = sorted(self.known_hits)
        ev["coverage"]["leads"] = [dict(key=k, **v) for k, v in list(self.leads.items())[:40]]
        ev["coverage"]["inconclusive"] = self.inconclusive
        if self.violations:
            classes = {}
            for k in self.violations:
                c = "|".join(f for f in k.split("|") if not f.startswith("x="))
                classes[c] = classes.get(c, 0) + 1
            ev["coverage"]["violation_classes"] = dict(sorted(classes.items(), key=lambda kv: -kv[1])[:300])
            ev["coverage"]["violation_keys"] = [
                {"key": k, "count": self.viol_count[k], "detail": v} for k, v in list(self.violations.items())[:50]]
        if not ev["coverage"]["samples"]:
            ev["coverage"]["samples"] = ["(none)"]
        # VF_OUT redirects evidence/replays (used when the checks are pointed at a scratch copy via VF_REPO,
        # so that the committed evidence always comes from a run against /repo itself)
        outroot = os.environ.get("VF_OUT", VERIF)
        os.makedirs(os.path.join(outroot, "evidence"), exist_ok=True)
        evpath = os.path.join(outroot, "evidence", f"{self.pid}.json")
        with open(evpath, "w") as f:
            json.dump(ev, f, indent=1, default=str)
            f.write("\n")
        for k, what in sorted(self.known_hits.items()):
            print(f"KNOWN-FINDING: property={self.pid} {what} [{k}]")
        if self.violations:
            rdir = os.path.join(outroot, "replays", self.pid)
            os.makedirs(rdir, exist_ok=True)
            first = None
            for k, d in list(self.violations.items())[:20]:
                name = hashlib.sha1(k.encode()).hexdigest()[:12] + ".json"
                p = os.path.join(rdir, name)
                with open(p, "w") as f:
                    json.dump({"property": self.pid, "key": k, "seed": self.seed, "tier": self.tier,
                               "count": self.viol_count[k], "detail": d}, f, indent=1, default=str)
                first = first or p
                print(f"VIOLATION property={self.pid} replay={p}")
                print(f"  key: {k}")
                msg = d.get("msg") if isinstance(d, dict) else None
                if msg:
                    print(f"  {msg}")
            if len(self.violations) > 20:
                print(f"  ... and {len(self.violations) - 20} more distinct violation keys (see evidence)")
            return 1
        if self.inconclusive:
            for w in self.inconclusive:
                print(f"INCONCLUSIVE property={self.pid}: {w}", file=sys.stderr)
            return 2
        if self.cov["evaluations"] < 1 or self.cov["distinct_nontrivial"] < 2:
            print(f"INCONCLUSIVE property={self.pid}: nothing observed", file=sys.stderr)
            return 2
        print(f"OK property={self.pid} tier={self.tier} seed={self.seed} evaluations={self.cov['evaluations']} "
              f"distinct_nontrivial={self.cov['distinct_nontrivial']} wall={wall:.1f}s")
        return 0
