"""setup_cmd: checks the toolchain and that both monitor flavours really observe a planted overflow."""
import json
import os
import shutil
import sys

from . import core

SRC = r'''
#include "vf_monitor.hh"
#include <climits>
int main(){
  vf::install_handlers();
  static long done=0;
  vf::g_inst=7;
  vf::run_loop(0,10,[&](uint64_t i){
    int x = vf::launder<int>(i < 5 ? 1 : INT_MAX);
    VF_PHASE(vf::PH_OPERATION){ int y = x + 3; vf::sink(y); }
    done += 1;
  });
  printf("{\"ev\":\"sum\",\"done\":%ld}\n",done);
  vf::print_traps_json(); vf::print_diag_json();
}
'''


def main():
    ok = True
    for tool in ("g++", "clang++", "python3"):
        if not shutil.which(tool):
            print(f"selftest: missing {tool}", file=sys.stderr)
            ok = False
    d = core.subdir("selftest")
    src = core.write(os.path.join(d, "t.cc"), SRC)
    for fl, want_traps, want_diag in (("G_trap", 5, None), ("L_trap", 5, None), ("G_diag", 0, 1), ("L_diag", 0, 1)):
        exe = os.path.join(d, fl + ".exe")
        rc, se = core.build(src, exe, fl)
        if rc != 0:
            print(f"selftest: {fl} build failed: {se[:300]}", file=sys.stderr)
            ok = False
            continue
        rc, so, se = core.sh([exe], timeout=60)
        evs = {json.loads(l)["ev"]: json.loads(l) for l in so.splitlines() if l.startswith("{")}
        traps = evs.get("traps", {}).get("by_phase", {}).get("OPERATION")
        if traps != want_traps:
            print(f"selftest: {fl}: expected {want_traps} OPERATION traps, saw {traps}", file=sys.stderr)
            ok = False
        if want_diag is not None:
            recs = evs.get("diag", {}).get("recs", [])
            if len(recs) != want_diag or recs[0]["kind"] != "signed-integer-overflow":
                print(f"selftest: {fl}: report hook saw {recs}", file=sys.stderr)
                ok = False
    if not os.path.isdir(core.INC):
        print(f"selftest: {core.INC} missing", file=sys.stderr)
        ok = False
    print("selftest " + ("ok" if ok else "FAILED"))
    return 0 if ok else 2
